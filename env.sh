# sourced by run.sh / setup.sh: resolve the Go toolchain the repository itself uses (go 1.25.4, cached offline)
export GOFLAGS=-mod=mod GOPROXY=off GOTOOLCHAIN=local GONOSUMDB='*' GONOSUMCHECK=1 GOFLAGS=-mod=mod
VF_GOROOT=""
for d in /root/go/pkg/mod/golang.org/toolchain@v0.0.1-go1.25.4.linux-amd64 /opt/veriftools/go1.26.8 /root/go/pkg/mod/golang.org/toolchain@v0.0.1-go1.26.8.linux-amd64; do
  if [ -x "$d/bin/go" ]; then VF_GOROOT="$d"; break; fi
done
if [ -z "$VF_GOROOT" ]; then echo "verif: no usable Go toolchain found" >&2; exit 2; fi
export VF_GO="$VF_GOROOT/bin/go"
export PATH="$VF_GOROOT/bin:$PATH"
export VF_ROOT="${VF_ROOT:-$(cd "$(dirname "${BASH_SOURCE[0]}")" && pwd)}"
export VF_WORK="$VF_ROOT/.work"
mkdir -p "$VF_WORK"
