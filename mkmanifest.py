#!/usr/bin/env python3
"""Regenerates /verif/MANIFEST.json from the table below (keeps the manifest valid at all times)."""
import json, sys

BASELINE = "for m in $(cat /w/out/gomods.txt); do MF=$(cd /repo/$m && . /w/out/goenv.sh && gomodflag); (cd /repo/$m && go test $MF -json -vet=off -count=1 -timeout 25m ./...); done"

# id -> (engine, technique, level text, level note, design ref)
CHECKS = {}
NOT_APPLICABLE = {}

def add(pid, engine, technique, text, note, ref):
    CHECKS[pid] = dict(engine=engine, technique=technique, text=text, note=note, ref=ref)

exec(open('/verif/manifest_table.py').read())

props = [json.loads(l)['id'] for l in open('/verif/properties.jsonl')]
checks = []
for pid in props:
    if pid not in CHECKS:
        if pid not in NOT_APPLICABLE:
            NOT_APPLICABLE[pid] = "check not built yet in this round (see DESIGN.md §8); the property has a bounded exhaustive formulation in DESIGN.md §3 and is not claimed until its explorer exists"
        continue
    c = CHECKS[pid]
    checks.append({
        "property_id": pid,
        "quick_cmd": f"./run.sh {pid} quick",
        "thorough_cmd": f"./run.sh {pid} thorough",
        "evidence_file": f"/verif/evidence/{pid}.json",
        "replay_cmd_template": "./.work/vf replay {path}",
        "engine": c['engine'],
        "level_claimed": {"category": "model_checking", "text": c['text'], "design_ref": c['ref']},
        "level_note": c['note'],
        "technique": c['technique'],
    })
engines = {}
for pid, c in CHECKS.items():
    engines.setdefault(c['engine'], []).append(pid)
ENG_DESC = {
 "bx": ("internal/bx", "program × input sweep: exhaustive enumeration of bounded pattern ASTs and seed edit neighbourhoods crossed with bounded haystacks, run on the real implementation and compared with package regexp / cross-view relations / the reference matcher"),
 "mx": ("internal/mx", "guarded-memory exhaustive sweep of the byte-search primitives and of all APIs over all short pattern strings"),
 "px": ("internal/px", "exhaustive literal-set × haystack × offset sweep of every prefilter implementation"),
 "ax": ("internal/ax", "exhaustive walk of compiled byte automata over all code points and all short byte strings"),
 "lx": ("internal/lx", "exhaustive literal-extraction soundness sweep against all match spans of the reference matcher"),
 "ex": ("internal/ex", "direct exhaustive exploration of each matching engine at every offset and cache configuration"),
 "hx": ("internal/hx", "explicit-state breadth-first search over call histories on one compiled value with full-state hashing"),
 "sx": ("internal/sx", "stateless schedule exploration (preemption-bounded DFS under a controlled scheduler) of the real code with sync/atomic shims"),
 "wx": ("internal/wx", "deterministic work-counter growth exploration over pump families"),
}
m = {
 "version": 1,
 "setup_cmd": "./setup.sh",
 "hooks": {
   "guard": "verif",
   "enable": "no source hooks are committed in /repo: instrumentation (sync/atomic shims, work counters, scheduling points) is generated from the current tree and injected with `go build -overlay` by the checks that need it; overlay-added files carry //go:build verif and are compiled with -tags verif",
   "baseline_off_cmd": BASELINE,
   "source_commits": [],
   "add_only": True,
 },
 "engines": [{"name": n, "path": "/verif/" + ENG_DESC.get(n, (n, n))[0], "serves_properties": sorted(p), "kind_free_text": ENG_DESC.get(n, (n, n))[1]} for n, p in sorted(engines.items())],
 "checks": checks,
 "notes": "All checks are bounded exhaustive explorations of the real implementation (DESIGN.md). Known genuine defects of the pinned tree are listed in /verif/known_findings.json with exact case sets under /verif/known/.",
 "not_applicable": [{"property_id": p, "reason": r} for p, r in sorted(NOT_APPLICABLE.items())],
}
json.dump(m, open('/verif/MANIFEST.json', 'w'), indent=1)
print("MANIFEST.json:", len(checks), "checks,", len(NOT_APPLICABLE), "not claimed")
