#!/bin/bash
# Run once after a fresh restore, offline: pre-builds the framework (and warms the Go build cache).
set -u
cd "$(dirname "$0")" || exit 2
. ./env.sh
cp -f /repo/go.sum ./go.sum 2>/dev/null || true
"$VF_GO" build -o "$VF_WORK/vf" ./cmd/vf || exit 2
rm -rf "$VF_WORK/cache"
echo "setup ok: $("$VF_GO" version)"
