SWEEP_NOTE = "Trusted: Go toolchain regexp as oracle; bounds L1/L4 of DESIGN §0 (pattern AST size, haystack symbols, embeddings); known findings matched by exact case hash."
add("C01", "bx", "bounded exhaustive program×input enumeration on the real code vs package regexp",
    "Every pattern AST up to the size bound and every seed edit-neighbour, on every haystack up to the symbol bound (ASCII, UTF-8, ill-formed, vector-stride embeddings), through every boolean entry point: no divergence from regexp other than the listed known findings.",
    SWEEP_NOTE, "§3 C01")
add("C18", "mx", "exhaustive length×placement×hit-position×content enumeration of each primitive against its scalar definition, under guard pages and CPU-feature masks",
    "Every simd primitive on every length 0..200, flush against inaccessible pages on both sides and at interior alignments, every hit position / no hit / two hits / near-miss bytes / every byte value, under three CPU-feature masks: result equals the scalar one-liner, no fault, no write.",
    "Trusted: kernel page protection; x/sys/cpu honouring GODEBUG; lengths ≤ 200 only.", "§3 C18")
