SWEEP_NOTE = "Trusted: package regexp of the repository's toolchain as oracle; bounds L1/L4 of DESIGN §0 (pattern AST size, haystack symbols, embeddings); known findings matched by exact case hash (known_findings.json)."
REF_NOTE = "Trusted: the reference matcher internal/refre (priority-ordered backtracking over regexp/syntax's program), itself compared with package regexp on every explored input (a disagreement aborts the run as a harness error); bounds as in the evidence file."

add("C01", "bx", "bounded exhaustive program×input enumeration on the real code vs package regexp",
    "Every pattern AST up to the size bound and every seed edit-neighbour, on every haystack up to the symbol bound (ASCII, UTF-8, ill-formed, vector-stride embeddings), through every boolean entry point (Match, MatchString, MatchReader, package-level forms, Engine.IsMatch): no divergence from regexp other than the listed known findings.",
    SWEEP_NOTE, "§3 C01")
add("C02", "bx", "bounded exhaustive program×input enumeration on the real code vs package regexp",
    "Same spaces as C01 through Find, FindString, FindIndex, FindStringIndex, FindReaderIndex, Engine.FindIndices, Engine.Find: the leftmost-first span equals regexp's.",
    SWEEP_NOTE, "§3 C02")
add("C03", "bx", "bounded exhaustive program×input enumeration on the real code vs package regexp",
    "Same spaces through the five Find*Submatch* forms and Engine.FindSubmatch(At): every capture position, nil-ness and group count equals regexp's.",
    SWEEP_NOTE, "§3 C03")
add("C04", "bx", "bounded exhaustive program×input×limit enumeration on the real code vs regexp.FindAllSubmatchIndex",
    "Same spaces, every limit n in {-1,0,1,2,3,|m|,|m|+1}, through all FindAll* forms, Count, the four iterators (with early break), AppendAll*Index with three dst shapes and the Engine enumeration API: the enumerated sequence equals regexp's.",
    SWEEP_NOTE, "§3 C04")
add("C05", "wx", "exhaustive pattern × pump-family enumeration on a deterministic work-counter build (overlay-instrumented real code)",
    "On a build of the current tree with a tick at every function entry and loop iteration, every pattern of the bounded space on every pump family at lengths L, 2L, 4L: work at most doubles (x2.6) when the input doubles, never exceeds 40 000 ticks per byte; compile work grows polynomially on the listed pattern families.",
    "Trusted: tick count as proxy for time (assembly/stdlib scans count one tick per call); L2: growth rate decided up to 4L on the enumerated families only.", "§3 C05")
add("C06", "sx", "stateless model checking: preemption-bounded DFS over all interleavings of the real code under a controlled scheduler, plus the race detector on every explored schedule",
    "The library is rebuilt with sync.Pool/atomic.Pointer shims (overlay generated from the current tree); for every strategy seed and every harness of 2-3 threads x 1-2 calls ALL schedules with at most 2 preemptions (and 'pool emptied by GC' deviations) are executed on fresh values: no pooled/slot object has two holders, every result equals the result of the call run alone, and the race detector (which cannot see the scheduler's raw-pipe hand-offs) reports no unordered conflicting accesses on any explored schedule.",
    "Trusted: sequentially consistent interleavings at sync operations (L3); the race detector's happens-before analysis; scheduling points = the library's sync.Pool/atomic.Pointer operations.", "§3 C06")
add("C07", "mx", "exhaustive enumeration of short pattern strings × guarded-memory haystacks through every exported method with totality and well-formedness monitors",
    "Every string over the pattern alphabet up to the length bound is compiled (must return); every one that compiles runs every exported search/replace/split/reader method and the Engine *At entry points on haystacks placed flush against inaccessible pages in read-only memory: no panic, fault, write or watchdog expiry; every span, capture vector, enumeration and returned slice is well-formed.",
    "Trusted: kernel page protection (out-of-slice reads detected when they cross the guard page); hangs detected by a generous per-unit watchdog; strings/haystacks within stated bounds.", "§3 C07")
add("C08", "bx", "bounded exhaustive template-grammar and program×source enumeration vs package regexp",
    "Every template of at most T symbols over {$ { } 0 1 n x _} through ReplaceAll(String)/Expand(String) on capture-bearing programs, and every pattern × source through the Replace*/Split forms (all n): byte-for-byte equal to regexp, result never aliases src.",
    SWEEP_NOTE, "§3 C08")
add("C09", "bx", "exhaustive enumeration of all short pattern strings and limit families vs package regexp",
    "Every string up to the length bound over the pattern alphabet through Compile/CompilePOSIX/MustCompile/MustCompilePOSIX (acceptance and exact error/panic text) and, when accepted, String, NumSubexp, SubexpNames, SubexpIndex, LiteralPrefix, MarshalText/UnmarshalText, Copy; QuoteMeta on every short string with the round trip; nesting/repetition/alternation limit families at every parameter value.",
    SWEEP_NOTE, "§3 C09")
add("C10", "bx", "bounded exhaustive program×input enumeration in leftmost-longest mode vs package regexp, plus exhaustive operation-sequence exploration for mode isolation",
    "The C01-C04 operations on values put in leftmost-longest mode by Longest() and by CompilePOSIX equal regexp in the same mode; every sequence of at most d Compile/Copy/Longest operations leaves every live value answering like its regexp twin (the mode belongs to one value).",
    SWEEP_NOTE, "§3 C10")
add("C11", "bx", "bounded exhaustive program×input enumeration checking cross-API relations (no external oracle)",
    "On every (pattern, haystack) of the bounded space all views agree: Match<=>FindIndex, Find/FindString/Submatch[0] = h[FindIndex], byte/string/reader forms, FindAll(n) prefixes, Count, iterators, AppendAllIndex, group 0 of FindAllSubmatch, and the Engine API including FindIndicesAt = FindAt = FindSubmatchAt[0] at every offset.",
    "Trusted: nothing external (relations between results of the same value); bounds as in the evidence file.", "§3 C11")
add("C12", "bx", "exhaustive enumeration of configurations within a deviation bound × programs × inputs × CPU-feature masks (differential)",
    "Every configuration with at most k deviations from the default (invalid ones must be rejected), every pattern and haystack of the bounded space, under three CPU-feature masks: Match/FindIndex/FindSubmatchIndex/FindAllIndex equal the default configuration's, whose boolean and span equal the plain NFA simulation.",
    "Trusted: differential oracle (default config and plain PikeVM of the same tree); x/sys/cpu honours GODEBUG=cpu.<f>=off.", "§3 C12")
add("C13", "hx", "explicit-state breadth-first search over call histories on one compiled value with full-state hashing (real code, replayed shortest histories)",
    "For every program (strategy seeds × default / shrunken lazy-DFA caches / near-wrap backtracker generation / longest) all call sequences up to the depth bound over 7 APIs × 7 haystacks + GC: every result equals the result on a fresh value and repeating the call gives the same result; states merged only when EVERYTHING reachable from the Regex hashes equal.",
    "Trusted: reflection walker completeness (fails loudly on unknown kinds; sync.Pool private slot read through a self-tested layout); sequential histories only; depth and transition cap as in the evidence.", "§3 C13")
add("C14", "ex", "bounded exhaustive direct exploration of each engine at every offset and cache configuration vs the validated reference matcher",
    "PikeVM (all entry points, three NFA compilation modes, longest), bounded backtracker, lazy DFA forward/anchored/earliest/reverse under every listed cache configuration on reused and fresh caches, and the one-pass DFA, on every pattern, haystack and rune-boundary offset of the bounded space: each call returns the reference answer or the documented decline.",
    REF_NOTE, "§3 C14")
add("C15", "ax", "exhaustive walk of compiled byte automata over every code point and all short byte strings vs package regexp",
    "For every class/literal/dot program and each compilation mode an independent simulator over the compiled NFA, and end-to-end Match, accept the UTF-8 encoding of EVERY code point exactly when regexp does, and agree with regexp on every byte string of length <= 2 and boundary strings of length 3-4.",
    "Trusted: package regexp and regexp/syntax class tables (cross-validated against each other during the run); the independent simulator's reading of RuneAny states.", "§3 C15")
add("C16", "px", "exhaustive literal-set × haystack × offset enumeration of every prefilter implementation under guard pages and CPU-feature masks, plus tracker history exploration",
    "Every literal set of the bounded space built through Builder, NewTeddy (fingerprint 1-4), NewFatTeddy, the wrappers and the tracker, and the digit prefilter: Find returns the smallest position >= start where a literal occurs (or -1); complete prefilters report regexp's span of the literal alternation; the tracker follows its documented protocol on every operation sequence up to depth 5.",
    "Trusted: scalar definition as oracle; package regexp for complete spans; kernel page protection; literal alphabets/lengths as stated.", "§3 C16")
add("C17", "lx", "bounded exhaustive enumeration of each pattern's language (all match spans of the reference matcher) vs extracted literal sequences under every extractor limit; exhaustive Seq algebra",
    "For every pattern and extractor configuration within the deviation bound, every match string of the pattern up to the length bound starts with / ends with / contains one of the extracted literals unless the sequence is empty or partial; Complete literals are matches and preferred; Seq operations preserve coverage and the Complete discipline on all small sequences.",
    REF_NOTE, "§3 C17")
add("C18", "mx", "exhaustive length×placement×hit-position×content enumeration of each primitive against its scalar definition, under guard pages and CPU-feature masks",
    "Every simd primitive on every length 0..200, flush against inaccessible pages on both sides and at interior alignments, every hit position / no hit / two hits / near-miss bytes / every byte value, under three CPU-feature masks: result equals the scalar one-liner, no fault, no write.",
    "Trusted: kernel page protection; x/sys/cpu honouring GODEBUG; lengths <= 200 only.", "§3 C18")
add("C19", "fx", "bounded exhaustive enumeration of the patterns each applicability predicate accepts, driving the fast path directly and through the Engine *At entry points at every offset vs the validated reference matcher",
    "Whenever a predicate accepts a pattern (char-class, composite table/DFA, branch dispatch, anchored literal, first-byte filter) the directly constructed searcher, and whenever strategy selection picks a fast path the Engine's FindIndicesAt/FindAt/FindSubmatchAt at every offset, IsMatch and Count, return the reference result on every haystack of the bounded space.",
    REF_NOTE, "§3 C19")
add("C20", "hx", "explicit-state breadth-first search over call histories with capacity monitors on every state, steady-state growth check and exhaustive allocation sweep",
    "On every state of the C13 history graph every lazy-DFA cache is within capacity + one state and every visited table within its cap; repeating any explored history 8 times leaves the value no larger than after 4 times; the calls documented as zero-allocation allocate nothing after warm-up on every seed × haystack.",
    "Trusted: reflection walker deep-size accounting; collector switched off except at explicit GC events; AllocsPerRun semantics.", "§3 C20")
