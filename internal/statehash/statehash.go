// Package statehash serialises everything reachable from a value by reflection — following pointers, unexported
// fields, slices up to their capacity, maps in sorted order and the per-P private slot of sync.Pool — and hashes
// it (DESIGN §2.4 full-state hashing). It also reports the deep size in bytes and lets a visitor inspect or patch
// values of chosen types (used to shrink lazy-DFA caches and to read monitors).
package statehash

import (
	"encoding/binary"
	"fmt"
	"hash"
	"hash/fnv"
	"reflect"
	"sort"
	"strings"
	"sync"
	"unsafe"
)

// Visitor is called for every addressable struct value (by pointer) before it is descended into. Returning false
// skips the subtree (it is then neither hashed nor sized).
type Visitor func(path string, ptr reflect.Value) bool

// Result of a walk.
type Result struct {
	Hash     uint64
	Bytes    int64 // deep size: every distinct allocation counted once, slices by capacity
	Values   int64
	PoolRead bool // the sync.Pool private slot could be read (layout self-test passed)
}

type walker struct {
	h       hash.Hash64
	seen    map[ptrKey]int
	visit   Visitor
	bytes   int64
	values  int64
	buf     [8]byte
	poolOK  bool
	depth   int
	skipSet map[reflect.Type]bool
}

var poolLayoutOK = func() bool {
	// self-test of the assumed sync.Pool layout: {noCopy, local unsafe.Pointer, localSize uintptr, ...} and
	// poolLocal{private any, ...}
	defer func() { recover() }()
	var p sync.Pool
	sentinel := new(int)
	*sentinel = 0x5eed
	p.Put(sentinel)
	got := poolPrivate(&p)
	q, ok := got.(*int)
	return ok && q == sentinel
}()

// poolPrivate reads local[0].private of a sync.Pool (valid with GOMAXPROCS=1, where every Put/Get uses P 0).
func poolPrivate(p *sync.Pool) any {
	rv := reflect.ValueOf(p).Elem()
	local := rv.FieldByName("local")
	size := rv.FieldByName("localSize")
	if !local.IsValid() || !size.IsValid() {
		return nil
	}
	lp := *(*unsafe.Pointer)(unsafe.Pointer(local.UnsafeAddr()))
	n := *(*uintptr)(unsafe.Pointer(size.UnsafeAddr()))
	if lp == nil || n == 0 {
		return nil
	}
	// poolLocal starts with poolLocalInternal whose first field is `private any`
	return *(*any)(lp)
}

// Walk hashes everything reachable from root (a pointer).
func Walk(root any, visit Visitor, skip ...reflect.Type) Result {
	w := &walker{h: fnv.New64a(), seen: map[ptrKey]int{}, visit: visit, poolOK: poolLayoutOK, skipSet: map[reflect.Type]bool{}}
	for _, t := range skip {
		w.skipSet[t] = true
	}
	w.value("", reflect.ValueOf(root))
	return Result{Hash: w.h.Sum64(), Bytes: w.bytes, Values: w.values, PoolRead: w.poolOK}
}

func (w *walker) u64(x uint64) {
	binary.LittleEndian.PutUint64(w.buf[:], x)
	w.h.Write(w.buf[:])
}

func (w *walker) tag(s string) { w.h.Write([]byte(s)) }

var poolType = reflect.TypeOf(sync.Pool{})

func access(v reflect.Value) reflect.Value {
	if v.CanInterface() || !v.CanAddr() {
		return v
	}
	return reflect.NewAt(v.Type(), unsafe.Pointer(v.UnsafeAddr())).Elem()
}

func (w *walker) value(path string, v reflect.Value) {
	w.values++
	w.depth++
	defer func() { w.depth-- }()
	if w.depth > 200 {
		panic("statehash: depth > 200 at " + path)
	}
	switch v.Kind() {
	case reflect.Invalid:
		w.tag("nil")
	case reflect.Bool:
		if v.Bool() {
			w.u64(1)
		} else {
			w.u64(0)
		}
	case reflect.Int, reflect.Int8, reflect.Int16, reflect.Int32, reflect.Int64:
		w.u64(uint64(v.Int()))
	case reflect.Uint, reflect.Uint8, reflect.Uint16, reflect.Uint32, reflect.Uint64, reflect.Uintptr:
		w.u64(v.Uint())
	case reflect.Float32, reflect.Float64:
		w.u64(uint64(int64(v.Float() * 1e6)))
	case reflect.Complex64, reflect.Complex128:
		w.tag("complex")
	case reflect.String:
		w.u64(uint64(v.Len()))
		w.tag(v.String())
	case reflect.Ptr:
		if v.IsNil() {
			w.tag("nilptr")
			return
		}
		key := ptrKey{v.Pointer(), v.Type()}
		if id, ok := w.seen[key]; ok {
			w.tag("ref")
			w.u64(uint64(id))
			return
		}
		w.seen[key] = len(w.seen)
		w.bytes += int64(v.Type().Elem().Size())
		w.tag("ptr")
		w.value(path, v.Elem())
	case reflect.Struct:
		t := v.Type()
		if w.skipSet[t] {
			w.tag("skipped")
			return
		}
		if t == poolType {
			w.tag("pool")
			if w.poolOK && v.CanAddr() {
				p := (*sync.Pool)(unsafe.Pointer(v.UnsafeAddr()))
				if it := poolPrivate(p); it != nil {
					w.value(path+".private", reflect.ValueOf(it))
				} else {
					w.tag("empty")
				}
			}
			return
		}
		if t.PkgPath() == "sync/atomic" && strings.HasPrefix(t.Name(), "Pointer[") && v.CanAddr() {
			// atomic.Pointer[T]: field v is an unsafe.Pointer to T; recover the typed pointer through Load's signature
			w.tag("atomicptr")
			if m, ok := reflect.PointerTo(t).MethodByName("Load"); ok {
				pt := m.Type.Out(0) // *T
				raw := *(*unsafe.Pointer)(unsafe.Pointer(v.FieldByName("v").UnsafeAddr()))
				if raw == nil {
					w.tag("nilptr")
				} else {
					w.value(path+".load", reflect.NewAt(pt.Elem(), raw))
				}
			}
			return
		}
		if w.visit != nil && v.CanAddr() {
			if !w.visit(path, v.Addr()) {
				w.tag("pruned")
				return
			}
		}
		w.tag(t.Name())
		for i := 0; i < v.NumField(); i++ {
			f := t.Field(i)
			if f.Name == "_" || f.Name == "noCopy" {
				continue
			}
			w.value(path+"."+f.Name, access(v.Field(i)))
		}
	case reflect.Slice:
		if v.IsNil() {
			w.tag("nilslice")
			return
		}
		w.u64(uint64(v.Len()))
		w.u64(uint64(v.Cap()))
		es := int64(v.Type().Elem().Size())
		key := ptrKey{v.Pointer(), v.Type()}
		if _, ok := w.seen[key]; !ok && v.Cap() > 0 {
			w.seen[key] = len(w.seen)
			w.bytes += es * int64(v.Cap())
		}
		full := v
		if v.Cap() > v.Len() {
			full = v.Slice(0, v.Cap())
		}
		switch v.Type().Elem().Kind() {
		case reflect.Uint8:
			// fast path
			if full.Len() > 0 {
				b := unsafe.Slice((*byte)(unsafe.Pointer(full.Pointer())), full.Len())
				w.h.Write(b)
			}
		case reflect.Uint16, reflect.Uint32, reflect.Uint64, reflect.Int, reflect.Int32, reflect.Int64, reflect.Uint, reflect.Bool, reflect.Int8, reflect.Int16:
			if full.Len() > 0 {
				b := unsafe.Slice((*byte)(unsafe.Pointer(full.Pointer())), full.Len()*int(es))
				w.h.Write(b)
			}
		default:
			for i := 0; i < full.Len(); i++ {
				w.value(path+"[]", access(full.Index(i)))
			}
		}
	case reflect.Array:
		switch v.Type().Elem().Kind() {
		case reflect.Uint8, reflect.Bool, reflect.Uint16, reflect.Uint32, reflect.Uint64, reflect.Int, reflect.Int32, reflect.Int64:
			if v.CanAddr() && v.Len() > 0 {
				b := unsafe.Slice((*byte)(unsafe.Pointer(v.UnsafeAddr())), int(v.Type().Size()))
				w.h.Write(b)
				return
			}
		}
		for i := 0; i < v.Len(); i++ {
			w.value(path+"[]", access(v.Index(i)))
		}
	case reflect.Map:
		if v.IsNil() {
			w.tag("nilmap")
			return
		}
		w.u64(uint64(v.Len()))
		w.bytes += int64(v.Len()) * int64(v.Type().Key().Size()+v.Type().Elem().Size()+8)
		type kv struct {
			k string
			v reflect.Value
		}
		var items []kv
		it := v.MapRange()
		for it.Next() {
			items = append(items, kv{fmt.Sprint(access(it.Key()).Interface()), it.Value()})
		}
		sort.Slice(items, func(i, j int) bool { return items[i].k < items[j].k })
		for _, e := range items {
			w.tag(e.k)
			ev := e.v
			if ev.Kind() == reflect.Struct || ev.Kind() == reflect.Array {
				// map values are not addressable: copy
				c := reflect.New(ev.Type()).Elem()
				c.Set(ev)
				ev = c
			}
			w.value(path+"{}", ev)
		}
	case reflect.Interface:
		if v.IsNil() {
			w.tag("nilif")
			return
		}
		e := v.Elem()
		w.tag(e.Type().String())
		if e.Kind() == reflect.Struct || e.Kind() == reflect.Array {
			c := reflect.New(e.Type()).Elem()
			c.Set(e)
			e = c
		}
		w.value(path, e)
	case reflect.Func:
		if v.IsNil() {
			w.tag("nilfunc")
		} else {
			w.tag("func")
		}
	case reflect.Chan, reflect.UnsafePointer:
		w.tag("opaque")
	default:
		panic("statehash: unknown kind " + v.Kind().String() + " at " + path)
	}
}

// ptrKey identifies an allocation as seen through a given static type (a pointer to a struct and a pointer to its
// first field share an address).
type ptrKey struct {
	a uintptr
	t reflect.Type
}
