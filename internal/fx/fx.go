// Package fx explores the specialised fast paths (DESIGN §3 C19): for every pattern each applicability predicate
// accepts it drives the corresponding searcher directly, and for every pattern whose selected strategy is a fast
// path it drives the Engine's *At entry points, on every haystack and every start offset of the bounded space,
// against the reference matcher.
package fx

import (
	"fmt"
	"hash/fnv"
	"os"
	"regexp"
	"regexp/syntax"
	"strconv"
	"strings"
	"time"
	"unicode/utf8"

	"github.com/coregx/coregex/meta"
	"github.com/coregx/coregex/nfa"

	"verif/internal/bx"
	"verif/internal/harness"
	"verif/internal/refre"
)

type fctx struct {
	w     *harness.W
	pat   string
	h     []byte
	pend  []string
	fams  string
	strat string
	eval  int64
}

func (c *fctx) fail(path, op, args string, want, got any) {
	e := path + "." + op
	if args != "" {
		e += "[" + args + "]"
	}
	c.pend = append(c.pend, e+": want "+bx.Show(want)+" got "+bx.Show(got))
	if !strings.Contains(c.fams, path+" ") {
		c.fams += path + " "
	}
}

func (c *fctx) flush() {
	if len(c.pend) == 0 {
		return
	}
	d := fnv.New64a()
	for _, e := range c.pend {
		d.Write([]byte(e))
		d.Write([]byte{0})
	}
	show := c.pend
	if len(show) > 6 {
		show = show[:6]
	}
	c.w.C["failing_evaluations"] += int64(len(c.pend))
	c.w.Fail(&harness.Case{Op: "fastpaths", Mode: c.strat, Pattern: c.pat, Hay: strconv.Quote(string(c.h)), Want: "every fast-path call equals the reference",
		Got: fmt.Sprintf("%d wrong calls (digest %016x): %s", len(c.pend), d.Sum64(), strings.Join(show, "; ")), Cluster: strings.TrimSpace(c.fams)})
	c.pend = c.pend[:0]
	c.fams = ""
}

func (c *fctx) guard(path, op, args string, f func()) {
	defer func() {
		if r := recover(); r != nil {
			s := fmt.Sprint(r)
			if i := strings.IndexByte(s, '\n'); i >= 0 {
				s = s[:i]
			}
			c.fail(path, op, args, "no panic", "panic: "+s)
		}
	}()
	f()
	c.eval++
}

func span(s, e int, ok bool) []int {
	if !ok {
		return nil
	}
	return []int{s, e}
}

func eq(a, b []int) bool {
	if (a == nil) != (b == nil) || len(a) != len(b) {
		return false
	}
	for i := range a {
		if a[i] != b[i] {
			return false
		}
	}
	return true
}

func first2(m []int) []int {
	if m == nil {
		return nil
	}
	return m[:2:2]
}

var generalStrategies = map[string]bool{"UseNFA": true, "UseDFA": true, "UseBoth": true, "UseBoundedBacktracker": true}

func runeStarts(h []byte) []int {
	var out []int
	for i := 0; i < len(h); {
		out = append(out, i)
		_, w := utf8.DecodeRune(h[i:])
		i += w
	}
	return append(out, len(h))
}

// Plan builds the C19 plan.
func Plan(tier string) *harness.Plan {
	t := bx.Tier{PN: 3, SK: 1, LASCII: 3, LUTF8: 2, LRaw: 0, EmbedW: 1, EmbedPN: 2, TokL: 3, TokN: 5, SeedEmbW: 1, SeedJ: []int{0, 33}, SeedEmbFirst: 400, SeedTokL: 4, SeedTokN: 6, Budget: 150 * time.Second}
	if tier == "thorough" {
		// plus every 4-node pattern on ASCII haystacks of <= 3 symbols and the two-edit seed neighbourhoods on their
		// token words (a superset of the quick space)
		t.PN, t.HugePN, t.LHuge, t.SK, t.LateSKDelta, t.Budget = 4, 3, 3, 2, 1, 25*time.Minute
	}
	sp := bx.NewSpace(t)
	run := func(w *harness.W, u int) {
		p := sp.Pats[u]
		std, err := regexp.Compile(p)
		if err != nil {
			return
		}
		re, _ := syntax.Parse(p, syntax.Perl)
		eng, err := meta.Compile(p)
		if err != nil {
			return
		}
		strat := eng.Strategy().String()
		// applicability predicates and directly constructed searchers (exactly as meta constructs them)
		var ccs *nfa.CharClassSearcher
		if nfa.IsSimpleCharClassPlus(re) {
			if rs := nfa.ExtractCharClassRanges(re); rs != nil {
				mm := 1
				if re.Op == syntax.OpStar {
					mm = 0
				}
				ccs = nfa.NewCharClassSearcher(rs, mm)
			}
		}
		var comp *nfa.CompositeSearcher
		var cdfa *nfa.CompositeSequenceDFA
		if nfa.IsCompositeCharClassPattern(re) {
			comp = nfa.NewCompositeSearcher(re)
		}
		if nfa.IsCompositeSequenceDFAPattern(re) {
			cdfa = nfa.NewCompositeSequenceDFA(re)
		}
		var bd *nfa.BranchDispatcher
		if nfa.IsBranchDispatchPattern(re) && re.Op == syntax.OpConcat {
			for _, sub := range re.Sub[1:] {
				if sub.Op == syntax.OpAlternate || sub.Op == syntax.OpCapture {
					bd = nfa.NewBranchDispatcher(sub)
					break
				}
			}
		}
		ali := meta.DetectAnchoredLiteral(re)
		fb := nfa.ExtractFirstBytes(re)
		fbUseful := fb != nil && fb.IsUseful()
		direct := ccs != nil || comp != nil || cdfa != nil || bd != nil || ali != nil || fbUseful
		fast := !generalStrategies[strat]
		w.C["strategy_"+strat]++
		for name, on := range map[string]bool{"CharClassSearcher": ccs != nil, "CompositeSearcher": comp != nil, "CompositeSequenceDFA": cdfa != nil, "BranchDispatcher": bd != nil, "AnchoredLiteral": ali != nil, "FirstBytes": fbUseful} {
			if on {
				w.C["accepted_by_"+name]++
			} else {
				w.C["rejected_by_"+name]++
			}
		}
		if !direct && !fast {
			w.C["patterns_on_general_paths_only"]++
			return
		}
		ref, err := refre.Compile(p, syntax.Perl)
		if err != nil {
			panic("refre: " + err.Error())
		}
		c := &fctx{w: w, pat: p, strat: strat}
		hs := sp.Haystacks(u)
		nt, nref := int64(0), int64(0)
		for _, h := range hs {
			c.h = h
			m0 := ref.FindAt(h, 0, false)
			if !eq(m0, std.FindSubmatchIndex(h)) {
				w.C["harness_errors"]++
				fmt.Fprintf(os.Stderr, "HARNESS: refre disagrees with regexp: pattern %q haystack %q: %v vs %v\n", p, h, m0, std.FindSubmatchIndex(h))
				continue
			}
			nref++
			if m0 != nil {
				nt++
			}
			starts := runeStarts(h)
			if len(starts) > 14 {
				// long embeddings: both ends plus a stride
				var s2 []int
				for i, s := range starts {
					if i < 3 || i >= len(starts)-3 || i%(len(starts)/8) == 0 {
						s2 = append(s2, s)
					}
				}
				starts = s2
			}
			wantAnch0 := ref.FindAtAnchored(h, 0)
			for _, at := range starts {
				a := "at=" + strconv.Itoa(at)
				want := ref.FindAt(h, at, false)
				ws := first2(want)
				if fast {
					c.guard("Engine", "FindIndicesAt", a, func() {
						if got := span(eng.FindIndicesAt(h, at)); !eq(got, ws) {
							c.fail("Engine", "FindIndicesAt", a, ws, got)
						}
						var got []int
						if m := eng.FindAt(h, at); m != nil {
							got = []int{m.Start(), m.End()}
						}
						if !eq(got, ws) {
							c.fail("Engine", "FindAt", a, ws, got)
						}
						var gotS []int
						if m := eng.FindSubmatchAt(h, at); m != nil {
							for i := 0; i < m.NumCaptures(); i++ {
								if g := m.GroupIndex(i); g != nil {
									gotS = append(gotS, g[0], g[1])
								} else {
									gotS = append(gotS, -1, -1)
								}
							}
						}
						if !eq(gotS, want) {
							c.fail("Engine", "FindSubmatchAt", a, want, gotS)
						}
					})
				}
				if ccs != nil {
					c.guard("CharClassSearcher", "SearchAt", a, func() {
						if got := span(ccs.SearchAt(h, at)); !eq(got, ws) {
							c.fail("CharClassSearcher", "SearchAt", a, ws, got)
						}
					})
				}
				if comp != nil {
					c.guard("CompositeSearcher", "SearchAt", a, func() {
						if got := span(comp.SearchAt(h, at)); !eq(got, ws) {
							c.fail("CompositeSearcher", "SearchAt", a, ws, got)
						}
					})
				}
				if cdfa != nil {
					c.guard("CompositeSequenceDFA", "SearchAt", a, func() {
						if got := span(cdfa.SearchAt(h, at)); !eq(got, ws) {
							c.fail("CompositeSequenceDFA", "SearchAt", a, ws, got)
						}
					})
				}
			}
			// offset-0-only entry points
			ws0 := first2(m0)
			if fast {
				c.guard("Engine", "IsMatch", "", func() {
					if got := eng.IsMatch(h); got != (m0 != nil) {
						c.fail("Engine", "IsMatch", "", m0 != nil, got)
					}
					if got := eng.Count(h, -1); got != len(ref.FindAll(h, -1, false)) {
						c.fail("Engine", "Count", "", len(ref.FindAll(h, -1, false)), got)
					}
				})
			}
			if ccs != nil {
				c.guard("CharClassSearcher", "Search", "", func() {
					if got := span(ccs.Search(h)); !eq(got, ws0) {
						c.fail("CharClassSearcher", "Search", "", ws0, got)
					}
					if got := ccs.IsMatch(h); got != (m0 != nil) {
						c.fail("CharClassSearcher", "IsMatch", "", m0 != nil, got)
					}
					all := ref.FindAll(h, -1, false)
					got := ccs.FindAllIndices(h, nil)
					ok := len(got) == len(all)
					for i := range all {
						if ok && (got[i][0] != all[i][0] || got[i][1] != all[i][1]) {
							ok = false
						}
					}
					if !ok {
						c.fail("CharClassSearcher", "FindAllIndices", "", fmt.Sprint(all), fmt.Sprint(got))
					}
					if n := ccs.Count(h); n != len(all) {
						c.fail("CharClassSearcher", "Count", "", len(all), n)
					}
				})
			}
			if comp != nil {
				c.guard("CompositeSearcher", "Search", "", func() {
					if got := span(comp.Search(h)); !eq(got, ws0) {
						c.fail("CompositeSearcher", "Search", "", ws0, got)
					}
					if got := comp.IsMatch(h); got != (m0 != nil) {
						c.fail("CompositeSearcher", "IsMatch", "", m0 != nil, got)
					}
				})
			}
			if cdfa != nil {
				c.guard("CompositeSequenceDFA", "Search", "", func() {
					if got := span(cdfa.Search(h)); !eq(got, ws0) {
						c.fail("CompositeSequenceDFA", "Search", "", ws0, got)
					}
					if got := cdfa.IsMatch(h); got != (m0 != nil) {
						c.fail("CompositeSequenceDFA", "IsMatch", "", m0 != nil, got)
					}
				})
			}
			if bd != nil {
				// the pattern is ^alt: anchored at 0
				c.guard("BranchDispatcher", "Search", "", func() {
					if got := span(bd.Search(h)); !eq(got, first2(wantAnch0)) {
						c.fail("BranchDispatcher", "Search", "", first2(wantAnch0), got)
					}
					if got := bd.IsMatch(h); got != (wantAnch0 != nil) {
						c.fail("BranchDispatcher", "IsMatch", "", wantAnch0 != nil, got)
					}
				})
			}
			if ali != nil {
				c.guard("AnchoredLiteral", "MatchAnchoredLiteral", "", func() {
					if got := meta.MatchAnchoredLiteral(h, ali); got != (m0 != nil) {
						c.fail("AnchoredLiteral", "MatchAnchoredLiteral", "", m0 != nil, got)
					}
				})
			}
			if fbUseful && len(h) > 0 {
				// rejection filter: a match starting at 0 implies the first byte is in the set
				c.guard("FirstBytes", "Contains", "", func() {
					if wantAnch0 != nil && wantAnch0[1] > 0 && !fb.Contains(h[0]) {
						c.fail("FirstBytes", "Contains(h[0])", "", "true (a match starts at 0)", false)
					}
				})
			}
			c.flush()
		}
		w.C["programs"]++
		w.C["states"] += int64(len(hs))
		w.C["evaluations"] += c.eval
		w.C["transitions"] += c.eval
		w.C["traces_validated_against_impl"] += nref
		w.C["distinct_nontrivial"] += nt
		if u%97 == 0 {
			w.Sample(map[string]any{"pattern": p, "strategy": strat, "haystacks": len(hs), "calls": c.eval, "direct": map[string]bool{"CharClassSearcher": ccs != nil, "CompositeSearcher": comp != nil, "CompositeSequenceDFA": cdfa != nil, "BranchDispatcher": bd != nil, "AnchoredLiteral": ali != nil, "FirstBytes": fbUseful}})
		}
	}
	return &harness.Plan{
		Units: len(sp.Pats), Chunk: 16, Run: run,
		Describe: func(u int) string { return fmt.Sprintf("pattern %q", sp.Pats[u]) },
		Replay: func(w *harness.W, c *harness.Case) {
			for u, p := range sp.Pats {
				if p == c.Pattern {
					run(w, u)
					return
				}
			}
		},
		Rule:   "For every pattern AST up to N nodes and every seed neighbour (k edits): (a) when the pattern's own applicability test accepts it — IsSimpleCharClassPlus, IsCompositeCharClassPattern, IsCompositeSequenceDFAPattern, IsBranchDispatchPattern, DetectAnchoredLiteral, ExtractFirstBytes(useful) — the searcher is constructed exactly as meta constructs it and driven directly (Search, SearchAt at every offset, IsMatch, FindAllIndices, Count, MatchAnchoredLiteral, first-byte rejection); (b) when strategy selection picks any fast path (a strategy other than UseNFA/UseDFA/UseBoth/UseBoundedBacktracker: the reverse searchers, Teddy, Aho-Corasick, digit prefilter, char-class, composite, branch dispatch, anchored literal) the Engine's FindIndicesAt / FindAt / FindSubmatchAt at every rune-boundary start offset, IsMatch and Count are driven; all compared with the reference matcher refre searching from the offset with full look-behind context (refre itself compared with package regexp on every input). The evidence counts accepted and rejected patterns per predicate. states = (program, haystack) pairs; transitions = fast-path calls; non-trivial = the reference finds a match.",
		Level:  "model_checking",
		Bounds: sp.Bounds(), Budget: t.Budget,
		Assume: []string{"ill-formed UTF-8 haystacks are left to C01-C04 (offsets inside broken sequences have no reference)", "refre is the trusted reference after its validation against package regexp"},
	}
}
