// Package guardmem provides haystack windows flanked by inaccessible pages (DESIGN §2.4): a read one byte
// outside a slice placed flush against a guard faults, and with debug.SetPanicOnFault(true) the fault is a
// recoverable panic that carries the address.
package guardmem

import (
	"fmt"
	"syscall"
	"unsafe"
)

const Page = 4096

// Window is [guard][data pages][guard].
type Window struct {
	all  []byte
	Data []byte // the accessible pages
	ro   bool
}

// New maps a window with n accessible pages.
func New(n int) *Window {
	all, err := syscall.Mmap(-1, 0, (n+2)*Page, syscall.PROT_READ|syscall.PROT_WRITE, syscall.MAP_ANON|syscall.MAP_PRIVATE)
	if err != nil {
		panic("guardmem: mmap: " + err.Error())
	}
	if err := syscall.Mprotect(all[:Page], syscall.PROT_NONE); err != nil {
		panic(err)
	}
	if err := syscall.Mprotect(all[(n+1)*Page:], syscall.PROT_NONE); err != nil {
		panic(err)
	}
	return &Window{all: all, Data: all[Page : (n+1)*Page : (n+1)*Page]}
}

// Writable makes the data pages writable (to lay out the next content).
func (w *Window) Writable() {
	if w.ro {
		if err := syscall.Mprotect(w.Data, syscall.PROT_READ|syscall.PROT_WRITE); err != nil {
			panic(err)
		}
		w.ro = false
	}
}

// ReadOnly makes the data pages read-only: a write by library code faults.
func (w *Window) ReadOnly() {
	if !w.ro {
		if err := syscall.Mprotect(w.Data, syscall.PROT_READ); err != nil {
			panic(err)
		}
		w.ro = true
	}
}

// Hi returns the slice of length n that ends flush against the upper guard page (capacity exactly n).
func (w *Window) Hi(n int) []byte {
	e := len(w.Data)
	return w.Data[e-n : e : e]
}

// Lo returns the slice of length n that starts flush against the lower guard page (capacity exactly n).
func (w *Window) Lo(n int) []byte { return w.Data[0:n:n] }

// Mid returns a slice of length n at offset off inside the window (capacity exactly n).
func (w *Window) Mid(off, n int) []byte { return w.Data[off : off+n : off+n] }

// PlaceHi copies b flush against the upper guard and returns the placed slice.
func (w *Window) PlaceHi(b []byte) []byte {
	s := w.Hi(len(b))
	copy(s, b)
	return s
}

// PlaceLo copies b flush against the lower guard and returns the placed slice.
func (w *Window) PlaceLo(b []byte) []byte {
	s := w.Lo(len(b))
	copy(s, b)
	return s
}

// Describe classifies a fault address relative to the window.
func (w *Window) Describe(addr uintptr) string {
	base := uintptr(unsafe.Pointer(&w.all[0]))
	switch {
	case addr >= base && addr < base+Page:
		return fmt.Sprintf("lower guard page (-%d bytes before the window)", base+Page-addr)
	case addr >= base+uintptr(len(w.all))-Page && addr < base+uintptr(len(w.all)):
		return fmt.Sprintf("upper guard page (+%d bytes past the window)", addr-(base+uintptr(len(w.all))-Page))
	case addr >= base+Page && addr < base+uintptr(len(w.all))-Page:
		return "inside the window (write to a read-only page)"
	}
	return "outside the mapping"
}

// Free unmaps the window.
func (w *Window) Free() { syscall.Munmap(w.all) }
