// Package guardmem provides haystack windows flanked by inaccessible pages (DESIGN §2.4): a read one byte
// outside a slice placed flush against a guard faults, and with debug.SetPanicOnFault(true) the fault is a
// recoverable panic that carries the address.
package guardmem

import (
	"fmt"
	"syscall"
	"unsafe"
)

const Page = 4096

// Window is [guard][data pages][guard].
type Window struct {
	all  []byte
	Data []byte // the accessible pages
	ro   bool
}

// New maps a window with n accessible pages.
func New(n int) *Window {
	all, err := syscall.Mmap(-1, 0, (n+2)*Page, syscall.PROT_READ|syscall.PROT_WRITE, syscall.MAP_ANON|syscall.MAP_PRIVATE)
	if err != nil {
		panic("guardmem: mmap: " + err.Error())
	}
	if err := syscall.Mprotect(all[:Page], syscall.PROT_NONE); err != nil {
		panic(err)
	}
	if err := syscall.Mprotect(all[(n+1)*Page:], syscall.PROT_NONE); err != nil {
		panic(err)
	}
	return &Window{all: all, Data: all[Page : (n+1)*Page : (n+1)*Page]}
}

// Writable makes the data pages writable (to lay out the next content).
func (w *Window) Writable() {
	if w.ro {
		if err := syscall.Mprotect(w.Data, syscall.PROT_READ|syscall.PROT_WRITE); err != nil {
			panic(err)
		}
		w.ro = false
	}
}

// ReadOnly makes the data pages read-only: a write by library code faults.
func (w *Window) ReadOnly() {
	if !w.ro {
		if err := syscall.Mprotect(w.Data, syscall.PROT_READ); err != nil {
			panic(err)
		}
		w.ro = true
	}
}

// Hi returns the slice of length n that ends flush against the upper guard page (capacity exactly n).
func (w *Window) Hi(n int) []byte {
	e := len(w.Data)
	return w.Data[e-n : e : e]
}

// Lo returns the slice of length n that starts flush against the lower guard page (capacity exactly n).
func (w *Window) Lo(n int) []byte { return w.Data[0:n:n] }

// Mid returns a slice of length n at offset off inside the window (capacity exactly n).
func (w *Window) Mid(off, n int) []byte { return w.Data[off : off+n : off+n] }

// PlaceHi copies b flush against the upper guard and returns the placed slice.
func (w *Window) PlaceHi(b []byte) []byte {
	s := w.Hi(len(b))
	copy(s, b)
	return s
}

// PlaceLo copies b flush against the lower guard and returns the placed slice.
func (w *Window) PlaceLo(b []byte) []byte {
	s := w.Lo(len(b))
	copy(s, b)
	return s
}

// Describe classifies a fault address relative to the window.
func (w *Window) Describe(addr uintptr) string {
	base := uintptr(unsafe.Pointer(&w.all[0]))
	switch {
	case addr >= base && addr < base+Page:
		return fmt.Sprintf("lower guard page (-%d bytes before the window)", base+Page-addr)
	case addr >= base+uintptr(len(w.all))-Page && addr < base+uintptr(len(w.all)):
		return fmt.Sprintf("upper guard page (+%d bytes past the window)", addr-(base+uintptr(len(w.all))-Page))
	case addr >= base+Page && addr < base+uintptr(len(w.all))-Page:
		return "inside the window (write to a read-only page)"
	}
	return "outside the mapping"
}

// Free unmaps the window.
func (w *Window) Free() { syscall.Munmap(w.all) }

// Multi is a sequence of n one-page cells, each flanked by inaccessible pages: [guard][cell 0][guard][cell 1][guard]…
// All cells are laid out once and then made read-only together, so that many haystacks can be searched without
// further mprotect calls.
type Multi struct {
	all []byte
	n   int
	ro  bool
}

// NewMulti maps n guarded cells.
func NewMulti(n int) *Multi {
	all, err := syscall.Mmap(-1, 0, (2*n+1)*Page, syscall.PROT_READ|syscall.PROT_WRITE, syscall.MAP_ANON|syscall.MAP_PRIVATE)
	if err != nil {
		panic("guardmem: mmap: " + err.Error())
	}
	for i := 0; i <= n; i++ {
		if err := syscall.Mprotect(all[2*i*Page:(2*i+1)*Page], syscall.PROT_NONE); err != nil {
			panic(err)
		}
	}
	return &Multi{all: all, n: n}
}

func (m *Multi) cell(i int) []byte { return m.all[(2*i+1)*Page : (2*i+2)*Page : (2*i+2)*Page] }

// Place copies b into cell i, flush against the upper (hi) or lower guard, and returns the placed slice
// (capacity exactly len(b)). len(b) must not exceed one page.
func (m *Multi) Place(i int, b []byte, hi bool) []byte {
	if m.ro {
		panic("guardmem: Place on a read-only Multi")
	}
	c := m.cell(i)
	if len(b) > len(c) {
		panic("guardmem: haystack larger than a cell")
	}
	var s []byte
	if hi {
		s = c[len(c)-len(b) : len(c) : len(c)]
	} else {
		s = c[0:len(b):len(b)]
	}
	copy(s, b)
	return s
}

// Protect switches all cells between read-only and read-write.
func (m *Multi) Protect(readOnly bool) {
	prot := syscall.PROT_READ | syscall.PROT_WRITE
	if readOnly {
		prot = syscall.PROT_READ
	}
	for i := 0; i < m.n; i++ {
		if err := syscall.Mprotect(m.cell(i), prot); err != nil {
			panic(err)
		}
	}
	m.ro = readOnly
}

// Cells returns the number of cells.
func (m *Multi) Cells() int { return m.n }

// DescribeAddr classifies a fault address.
func (m *Multi) DescribeAddr(addr uintptr) string {
	base := uintptr(unsafe.Pointer(&m.all[0]))
	if addr < base || addr >= base+uintptr(len(m.all)) {
		return "outside the mapping"
	}
	pg := int(addr-base) / Page
	if pg%2 == 0 {
		return fmt.Sprintf("guard page %d (%d bytes into it)", pg/2, int(addr-base)%Page)
	}
	return fmt.Sprintf("cell %d (write to a read-only page)", pg/2)
}
