package bx

import (
	"bytes"
	"fmt"
	"unicode/utf8"

	"github.com/coregx/coregex"
	"github.com/coregx/coregex/meta"
)

// ---- C01: Match family ------------------------------------------------------------------------------------

// OpsC01 compares every boolean entry point with std on h. pkgLevel additionally runs the package-level
// functions (which compile the pattern on every call and are therefore run on a subset only).
func (cx *Ctx) OpsC01(h []byte, pkgLevel, reader bool) (nontrivial bool) {
	want := cx.Std.Match(h)
	s := string(h)
	cx.guard("Match", h, "", func() {
		if got := cx.Re.Match(h); got != want {
			cx.Fail("Match", h, "", want, got)
		}
	})
	cx.guard("MatchString", h, "", func() {
		if got := cx.Re.MatchString(s); got != want {
			cx.Fail("MatchString", h, "", want, got)
		}
	})
	n := int64(2)
	if reader {
		cx.guard("MatchReader", h, "", func() {
			wantR := cx.Std.MatchReader(bytes.NewReader(h))
			if got := cx.Re.MatchReader(bytes.NewReader(h)); got != wantR {
				cx.Fail("MatchReader", h, "", wantR, got)
			}
		})
		n++
	}
	if cx.Eng != nil {
		cx.guard("Engine.IsMatch", h, "", func() {
			if got := cx.Eng.IsMatch(h); got != want {
				cx.Fail("Engine.IsMatch", h, "", want, got)
			}
		})
		n++
	}
	if pkgLevel && cx.Mode == "first" {
		cx.guard("pkg.Match", h, "", func() {
			got, err := coregex.Match(cx.Pat, h)
			if err != nil || got != want {
				cx.Fail("pkg.Match", h, "", want, fmt.Sprint(got, err))
			}
			got, err = coregex.MatchString(cx.Pat, s)
			if err != nil || got != want {
				cx.Fail("pkg.MatchString", h, "", want, fmt.Sprint(got, err))
			}
			got, err = coregex.MatchReader(cx.Pat, bytes.NewReader(h))
			wantR := cx.Std.MatchReader(bytes.NewReader(h))
			if err != nil || got != wantR {
				cx.Fail("pkg.MatchReader", h, "", wantR, fmt.Sprint(got, err))
			}
		})
		n += 3
	}
	cx.W.C["evaluations"] += n
	return want
}

// ---- C02: first-match span --------------------------------------------------------------------------------

func (cx *Ctx) OpsC02(h []byte) (nontrivial bool) {
	want := cx.Std.FindIndex(h)
	s := string(h)
	cx.guard("FindIndex", h, "", func() {
		if got := cx.Re.FindIndex(h); !eqInts(got, want) {
			cx.Fail("FindIndex", h, "", want, got)
		}
	})
	cx.guard("FindStringIndex", h, "", func() {
		if got := cx.Re.FindStringIndex(s); !eqInts(got, want) {
			cx.Fail("FindStringIndex", h, "", want, got)
		}
	})
	cx.guard("Find", h, "", func() {
		w := cx.Std.Find(h)
		if got := cx.Re.Find(h); !eqBytes(got, w) {
			cx.Fail("Find", h, "", w, got)
		}
	})
	cx.guard("FindString", h, "", func() {
		w := cx.Std.FindString(s)
		if got := cx.Re.FindString(s); got != w {
			cx.Fail("FindString", h, "", w, got)
		}
	})
	cx.guard("FindReaderIndex", h, "", func() {
		w := cx.Std.FindReaderIndex(bytes.NewReader(h))
		if got := cx.Re.FindReaderIndex(bytes.NewReader(h)); !eqInts(got, w) {
			cx.Fail("FindReaderIndex", h, "", w, got)
		}
	})
	n := int64(5)
	if cx.Eng != nil {
		cx.guard("Engine.FindIndices", h, "", func() {
			st, en, found := cx.Eng.FindIndices(h)
			var got []int
			if found {
				got = []int{st, en}
			}
			if !eqInts(got, want) {
				cx.Fail("Engine.FindIndices", h, "", want, got)
			}
		})
		cx.guard("Engine.Find", h, "", func() {
			m := cx.Eng.Find(h)
			var got []int
			if m != nil {
				got = []int{m.Start(), m.End()}
			}
			if !eqInts(got, want) {
				cx.Fail("Engine.Find", h, "", want, got)
			}
		})
		n += 2
	}
	cx.W.C["evaluations"] += n
	return want != nil
}

// ---- C03: capture positions -------------------------------------------------------------------------------

func capsOf(m *meta.MatchWithCaptures) []int {
	if m == nil {
		return nil
	}
	out := make([]int, 0, 2*m.NumCaptures())
	for i := 0; i < m.NumCaptures(); i++ {
		g := m.GroupIndex(i)
		if g == nil {
			out = append(out, -1, -1)
		} else {
			out = append(out, g[0], g[1])
		}
	}
	return out
}

func (cx *Ctx) OpsC03(h []byte) (nontrivial bool) {
	want := cx.Std.FindSubmatchIndex(h)
	s := string(h)
	cx.guard("FindSubmatchIndex", h, "", func() {
		got := cx.Re.FindSubmatchIndex(h)
		if !eqInts(got, want) {
			cx.Fail("FindSubmatchIndex", h, "", want, got)
		}
	})
	cx.guard("FindStringSubmatchIndex", h, "", func() {
		if got := cx.Re.FindStringSubmatchIndex(s); !eqInts(got, want) {
			cx.Fail("FindStringSubmatchIndex", h, "", want, got)
		}
	})
	cx.guard("FindSubmatch", h, "", func() {
		w := cx.Std.FindSubmatch(h)
		if got := cx.Re.FindSubmatch(h); !eqBytess(got, w) {
			cx.Fail("FindSubmatch", h, "", w, got)
		}
	})
	cx.guard("FindStringSubmatch", h, "", func() {
		w := cx.Std.FindStringSubmatch(s)
		if got := cx.Re.FindStringSubmatch(s); !eqStrings(got, w) {
			cx.Fail("FindStringSubmatch", h, "", w, got)
		}
	})
	cx.guard("FindReaderSubmatchIndex", h, "", func() {
		w := cx.Std.FindReaderSubmatchIndex(bytes.NewReader(h))
		if got := cx.Re.FindReaderSubmatchIndex(bytes.NewReader(h)); !eqInts(got, w) {
			cx.Fail("FindReaderSubmatchIndex", h, "", w, got)
		}
	})
	n := int64(5)
	if cx.Eng != nil {
		cx.guard("Engine.FindSubmatch", h, "", func() {
			if got := capsOf(cx.Eng.FindSubmatch(h)); !eqInts(got, want) {
				cx.Fail("Engine.FindSubmatch", h, "", want, got)
			}
		})
		cx.guard("Engine.FindSubmatchAt0", h, "", func() {
			if got := capsOf(cx.Eng.FindSubmatchAt(h, 0)); !eqInts(got, want) {
				cx.Fail("Engine.FindSubmatchAt0", h, "", want, got)
			}
		})
		n += 2
	}
	cx.W.C["evaluations"] += n
	return want != nil
}

// ---- C04: enumeration -------------------------------------------------------------------------------------

func prefixN(seq [][]int, n int) [][]int {
	if n == 0 {
		return nil
	}
	if n < 0 || n >= len(seq) {
		return seq
	}
	return seq[:n]
}

func group0(seq [][]int) [][]int {
	if seq == nil {
		return nil
	}
	out := make([][]int, len(seq))
	for i, m := range seq {
		out[i] = m[:2:2]
	}
	return out
}

func pairs(seq [][]int) [][2]int {
	out := make([][2]int, len(seq))
	for i, m := range seq {
		out[i] = [2]int{m[0], m[1]}
	}
	return out
}

func eqPairs(a, b [][2]int) bool {
	if len(a) != len(b) {
		return false
	}
	for i := range a {
		if a[i] != b[i] {
			return false
		}
	}
	return true
}

// OpsC04 checks every enumeration API against std's FindAllSubmatchIndex sequence. full selects all forms for
// all n; otherwise the secondary (string / slice-of-bytes) forms run at n=-1 and n=1 only.
func (cx *Ctx) OpsC04(h []byte, full bool) (nontrivial bool) {
	all := cx.Std.FindAllSubmatchIndex(h, -1)
	s := string(h)
	ns := []int{-1, 0, 1, 2, 3, len(all), len(all) + 1}
	seen := map[int]bool{}
	evals := int64(0)
	for _, n := range ns {
		if seen[n] {
			continue
		}
		seen[n] = true
		args := fmt.Sprintf("n=%d", n)
		wantSub := prefixN(all, n)
		want := group0(wantSub)
		cx.guard("FindAllIndex", h, args, func() {
			if got := cx.Re.FindAllIndex(h, n); !eqIntss(got, want) {
				cx.Fail("FindAllIndex", h, args, want, got)
			}
		})
		cx.guard("FindAllSubmatchIndex", h, args, func() {
			if got := cx.Re.FindAllSubmatchIndex(h, n); !eqIntss(got, wantSub) {
				cx.Fail("FindAllSubmatchIndex", h, args, wantSub, got)
			}
		})
		evals += 2
		if n != 0 {
			cx.guard("Count", h, args, func() {
				if got := cx.Re.Count(h, n); got != len(want) {
					cx.Fail("Count", h, args, len(want), got)
				}
				if got := cx.Re.CountString(s, n); got != len(want) {
					cx.Fail("CountString", h, args, len(want), got)
				}
			})
			evals += 2
		}
		// AppendAllIndex with three dst shapes
		for di, dst := range [][][2]int{nil, make([][2]int, 0, 8), {{-7, -7}, {-8, -8}}} {
			a2 := fmt.Sprintf("%s dst=%d", args, di)
			wantP := append(append([][2]int{}, dst...), pairs(want)...)
			cx.guard("AppendAllIndex", h, a2, func() {
				d := append([][2]int(nil), dst...)
				if dst != nil && len(dst) == 0 {
					d = make([][2]int, 0, 8)
				}
				if got := cx.Re.AppendAllIndex(d, h, n); !eqPairs(got, wantP) {
					cx.Fail("AppendAllIndex", h, a2, wantP, got)
				}
				d2 := append([][2]int(nil), dst...)
				if got := cx.Re.AppendAllStringIndex(d2, s, n); !eqPairs(got, wantP) {
					cx.Fail("AppendAllStringIndex", h, a2, wantP, got)
				}
			})
			evals += 2
		}
		if full || n == -1 || n == 1 {
			cx.guard("FindAllStringIndex", h, args, func() {
				if got := cx.Re.FindAllStringIndex(s, n); !eqIntss(got, want) {
					cx.Fail("FindAllStringIndex", h, args, want, got)
				}
				if got := cx.Re.FindAllStringSubmatchIndex(s, n); !eqIntss(got, wantSub) {
					cx.Fail("FindAllStringSubmatchIndex", h, args, wantSub, got)
				}
			})
			cx.guard("FindAll", h, args, func() {
				w := cx.Std.FindAll(h, n)
				if got := cx.Re.FindAll(h, n); !eqBytess(got, w) {
					cx.Fail("FindAll", h, args, w, got)
				}
			})
			cx.guard("FindAllString", h, args, func() {
				w := cx.Std.FindAllString(s, n)
				if got := cx.Re.FindAllString(s, n); !eqStrings(got, w) {
					cx.Fail("FindAllString", h, args, w, got)
				}
			})
			cx.guard("FindAllSubmatch", h, args, func() {
				w := cx.Std.FindAllSubmatch(h, n)
				if got := cx.Re.FindAllSubmatch(h, n); !eqBytesss(got, w) {
					cx.Fail("FindAllSubmatch", h, args, w, got)
				}
			})
			cx.guard("FindAllStringSubmatch", h, args, func() {
				w := cx.Std.FindAllStringSubmatch(s, n)
				if got := cx.Re.FindAllStringSubmatch(s, n); !eqStringss(got, w) {
					cx.Fail("FindAllStringSubmatch", h, args, w, got)
				}
			})
			evals += 6
		}
		if cx.Eng != nil && n != 0 {
			cx.guard("Engine.FindAllIndicesStreaming", h, args, func() {
				if got := cx.Eng.FindAllIndicesStreaming(h, n, nil); !eqPairs(got, pairs(want)) {
					cx.Fail("Engine.FindAllIndicesStreaming", h, args, pairs(want), got)
				}
				if got := cx.Eng.Count(h, n); got != len(want) {
					cx.Fail("Engine.Count", h, args, len(want), got)
				}
			})
			cx.guard("Engine.FindAllSubmatch", h, args, func() {
				ms := cx.Eng.FindAllSubmatch(h, n)
				var got [][]int
				for _, m := range ms {
					got = append(got, capsOf(m))
				}
				if !eqIntss(got, wantSub) {
					cx.Fail("Engine.FindAllSubmatch", h, args, wantSub, got)
				}
			})
			evals += 3
		}
	}
	// iterators: full sequence and early break after j yields
	wantAll := pairs(group0(all))
	for _, stop := range []int{-1, 0, 1, 2} {
		if stop >= len(wantAll) && stop != -1 {
			continue
		}
		args := fmt.Sprintf("break=%d", stop)
		wantIt := wantAll
		if stop >= 0 {
			wantIt = wantAll[:stop+1]
		}
		cx.guard("AllIndex", h, args, func() {
			var got [][2]int
			for m := range cx.Re.AllIndex(h) {
				got = append(got, m)
				if stop >= 0 && len(got) == stop+1 {
					break
				}
			}
			if !eqPairs(got, wantIt) {
				cx.Fail("AllIndex", h, args, wantIt, got)
			}
			got = got[:0]
			for m := range cx.Re.AllStringIndex(s) {
				got = append(got, m)
				if stop >= 0 && len(got) == stop+1 {
					break
				}
			}
			if !eqPairs(got, wantIt) {
				cx.Fail("AllStringIndex", h, args, wantIt, got)
			}
		})
		cx.guard("All", h, args, func() {
			var got []string
			for m := range cx.Re.All(h) {
				got = append(got, string(m))
				if stop >= 0 && len(got) == stop+1 {
					break
				}
			}
			var wantS []string
			for _, m := range wantIt {
				wantS = append(wantS, s[m[0]:m[1]])
			}
			if !eqStrings(got, wantS) {
				cx.Fail("All", h, args, wantS, got)
			}
			got = nil
			for m := range cx.Re.AllString(s) {
				got = append(got, m)
				if stop >= 0 && len(got) == stop+1 {
					break
				}
			}
			if !eqStrings(got, wantS) {
				cx.Fail("AllString", h, args, wantS, got)
			}
		})
		evals += 4
	}
	cx.W.C["evaluations"] += evals
	return all != nil
}

// ---- C11: all views agree (no oracle) ---------------------------------------------------------------------

func (cx *Ctx) rel(name string, h []byte, args string, a, b any, eq bool) {
	if !eq {
		cx.failRaw(name, h, args, Show(a), Show(b))
	}
}

// OpsC11 checks the cross-view relations on one haystack. The "want" side of a reported case is the left view,
// the "got" side the right view.
func (cx *Ctx) OpsC11(h []byte) (nontrivial bool) {
	s := string(h)
	re := cx.Re
	evals := int64(0)
	var fi []int
	cx.guard("views", h, "", func() {
		fi = re.FindIndex(h)
		m := re.Match(h)
		cx.rel("Match<=>FindIndex", h, "", m, fi != nil, m == (fi != nil))
		ms := re.MatchString(s)
		cx.rel("Match=MatchString", h, "", m, ms, m == ms)
		mr := re.MatchReader(bytes.NewReader(h))
		if isValidNoFFFD(h) {
			cx.rel("Match=MatchReader", h, "", m, mr, m == mr)
		}
		fsi := re.FindStringIndex(s)
		cx.rel("FindIndex=FindStringIndex", h, "", fi, fsi, eqInts(fi, fsi))
		f := re.Find(h)
		var wantF []byte
		if fi != nil {
			wantF = h[fi[0]:fi[1]:fi[1]] // nil exactly when the haystack itself is nil, as with package regexp
		}
		cx.rel("Find=h[FindIndex]", h, "", wantF, f, eqBytes(wantF, f))
		fs := re.FindString(s)
		wantFS := ""
		if fi != nil {
			wantFS = s[fi[0]:fi[1]]
		}
		cx.rel("FindString=s[FindIndex]", h, "", wantFS, fs, wantFS == fs)
		smi := re.FindSubmatchIndex(h)
		cx.rel("FindSubmatchIndex[0:2]=FindIndex", h, "", fi, smi, (smi == nil) == (fi == nil) && (smi == nil || len(smi) >= 2 && smi[0] == fi[0] && smi[1] == fi[1]))
		cx.rel("len(FindSubmatchIndex)=2*(NumSubexp+1)", h, "", 2*(re.NumSubexp()+1), len(smi), smi == nil || len(smi) == 2*(re.NumSubexp()+1))
		ssmi := re.FindStringSubmatchIndex(s)
		cx.rel("FindSubmatchIndex=FindStringSubmatchIndex", h, "", smi, ssmi, eqInts(smi, ssmi))
		sm := re.FindSubmatch(h)
		if smi != nil && len(smi)%2 == 0 {
			want := make([][]byte, len(smi)/2)
			ok := true
			for i := range want {
				a, b := smi[2*i], smi[2*i+1]
				if a >= 0 && b >= a && b <= len(h) {
					want[i] = h[a:b:b]
				} else if a != -1 || b != -1 {
					ok = false
				}
			}
			if ok {
				cx.rel("FindSubmatch=h[FindSubmatchIndex]", h, "", want, sm, eqBytess(want, sm))
			}
		} else {
			cx.rel("FindSubmatch=h[FindSubmatchIndex]", h, "", nil, sm, sm == nil)
		}
		ssm := re.FindStringSubmatch(s)
		okS := (ssm == nil) == (sm == nil) && len(ssm) == len(sm)
		if okS {
			for i := range sm {
				if string(sm[i]) != ssm[i] {
					okS = false
				}
			}
		}
		cx.rel("FindSubmatch=FindStringSubmatch", h, "", sm, ssm, okS)
		if isValidNoFFFD(h) {
			fri := re.FindReaderIndex(bytes.NewReader(h))
			cx.rel("FindIndex=FindReaderIndex", h, "", fi, fri, eqInts(fi, fri))
			frsi := re.FindReaderSubmatchIndex(bytes.NewReader(h))
			cx.rel("FindSubmatchIndex=FindReaderSubmatchIndex", h, "", smi, frsi, eqInts(smi, frsi))
			evals += 2
		}
		evals += 12
	})
	var all [][]int
	cx.guard("views-all", h, "", func() {
		all = re.FindAllIndex(h, -1)
		if len(all) > 0 {
			cx.rel("FindAllIndex(-1)[0]=FindIndex", h, "", fi, all[0], eqInts(fi, all[0]))
		} else {
			cx.rel("FindAllIndex(-1)=nil<=>FindIndex=nil", h, "", fi, all, fi == nil)
		}
		for _, n := range []int{0, 1, 2, 3, len(all) + 1} {
			got := re.FindAllIndex(h, n)
			want := prefixN(all, n)
			if len(want) == 0 {
				want = nil
			}
			cx.rel("FindAllIndex(n)=FindAllIndex(-1)[:n]", h, fmt.Sprintf("n=%d", n), want, got, eqIntss(want, got))
			if n != 0 {
				c := re.Count(h, n)
				cx.rel("Count(n)=len(FindAllIndex(n))", h, fmt.Sprintf("n=%d", n), len(want), c, c == len(want))
			}
			evals += 2
		}
		c := re.Count(h, -1)
		cx.rel("Count=len(FindAllIndex)", h, "", len(all), c, c == len(all))
		cs := re.CountString(s, -1)
		cx.rel("CountString=len(FindAllIndex)", h, "", len(all), cs, cs == len(all))
		var it [][2]int
		for m := range re.AllIndex(h) {
			it = append(it, m)
		}
		cx.rel("AllIndex=FindAllIndex", h, "", pairs(all), it, eqPairs(pairs(all), it))
		it = nil
		for m := range re.AllStringIndex(s) {
			it = append(it, m)
		}
		cx.rel("AllStringIndex=FindAllIndex", h, "", pairs(all), it, eqPairs(pairs(all), it))
		var itb []string
		for m := range re.All(h) {
			itb = append(itb, string(m))
		}
		var its []string
		for m := range re.AllString(s) {
			its = append(its, m)
		}
		var wantS []string
		for _, m := range all {
			if m[0] >= 0 && m[0] <= m[1] && m[1] <= len(s) {
				wantS = append(wantS, s[m[0]:m[1]])
			}
		}
		cx.rel("All=h[FindAllIndex]", h, "", wantS, itb, eqStrings(wantS, itb))
		cx.rel("AllString=s[FindAllIndex]", h, "", wantS, its, eqStrings(wantS, its))
		ap := re.AppendAllIndex(nil, h, -1)
		cx.rel("AppendAllIndex=FindAllIndex", h, "", pairs(all), ap, eqPairs(pairs(all), ap))
		aps := re.AppendAllStringIndex(make([][2]int, 0, 4), s, -1)
		cx.rel("AppendAllStringIndex=FindAllIndex", h, "", pairs(all), aps, eqPairs(pairs(all), aps))
		fa := re.FindAll(h, -1)
		fas := re.FindAllString(s, -1)
		okA := len(fa) == len(all) && len(fas) == len(all)
		if okA {
			for i := range all {
				if string(fa[i]) != wantS[i] || fas[i] != wantS[i] {
					okA = false
				}
			}
		}
		cx.rel("FindAll/FindAllString=h[FindAllIndex]", h, "", wantS, fas, okA)
		fsi := re.FindAllStringIndex(s, -1)
		cx.rel("FindAllStringIndex=FindAllIndex", h, "", all, fsi, eqIntss(all, fsi))
		asm := re.FindAllSubmatchIndex(h, -1)
		okG := len(asm) == len(all)
		if okG {
			for i := range all {
				if len(asm[i]) < 2 || asm[i][0] != all[i][0] || asm[i][1] != all[i][1] || len(asm[i]) != 2*(re.NumSubexp()+1) {
					okG = false
				}
			}
		}
		cx.rel("FindAllSubmatchIndex[.][0:2]=FindAllIndex", h, "", all, asm, okG)
		assm := re.FindAllStringSubmatchIndex(s, -1)
		cx.rel("FindAllSubmatchIndex=FindAllStringSubmatchIndex", h, "", asm, assm, eqIntss(asm, assm))
		asb := re.FindAllSubmatch(h, -1)
		ass := re.FindAllStringSubmatch(s, -1)
		okB := len(asb) == len(asm) && len(ass) == len(asm)
		if okB {
			for i := range asm {
				if len(asb[i]) != len(asm[i])/2 || len(ass[i]) != len(asm[i])/2 {
					okB = false
					break
				}
				for g := 0; g < len(asm[i])/2; g++ {
					a, b := asm[i][2*g], asm[i][2*g+1]
					if a < 0 {
						if asb[i][g] != nil || ass[i][g] != "" {
							okB = false
						}
					} else if b < a || b > len(h) || (asb[i][g] == nil) != (h[a:b] == nil) || string(asb[i][g]) != s[a:b] || ass[i][g] != s[a:b] {
						okB = false
					}
				}
			}
		}
		cx.rel("FindAllSubmatch/FindAllStringSubmatch=h[FindAllSubmatchIndex]", h, "", asm, ass, okB)
		evals += 16
	})
	if cx.Eng != nil {
		e := cx.Eng
		cx.guard("views-engine", h, "", func() {
			st, en, ok := e.FindIndices(h)
			var efi []int
			if ok {
				efi = []int{st, en}
			}
			cx.rel("Engine.FindIndices=FindIndex", h, "", fi, efi, eqInts(fi, efi))
			var ef []int
			if m := e.Find(h); m != nil {
				ef = []int{m.Start(), m.End()}
			}
			cx.rel("Engine.Find=FindIndex", h, "", fi, ef, eqInts(fi, ef))
			im := e.IsMatch(h)
			cx.rel("Engine.IsMatch=Match", h, "", fi != nil, im, im == (fi != nil))
			ec := e.Count(h, -1)
			cx.rel("Engine.Count=len(FindAllIndex)", h, "", len(all), ec, ec == len(all))
			esm := capsOf(e.FindSubmatch(h))
			smi := cx.Re.FindSubmatchIndex(h)
			cx.rel("Engine.FindSubmatch=FindSubmatchIndex", h, "", smi, esm, eqInts(smi, esm))
			evals += 5
			for at := 0; at <= len(h); at++ {
				a := fmt.Sprintf("at=%d", at)
				st, en, ok := e.FindIndicesAt(h, at)
				var x []int
				if ok {
					x = []int{st, en}
				}
				var y []int
				if m := e.FindAt(h, at); m != nil {
					y = []int{m.Start(), m.End()}
				}
				cx.rel("Engine.FindIndicesAt=Engine.FindAt", h, a, x, y, eqInts(x, y))
				if at == 0 {
					cx.rel("Engine.FindIndicesAt(0)=FindIndex", h, a, fi, x, eqInts(fi, x))
				}
				var z []int
				if m := e.FindSubmatchAt(h, at); m != nil {
					z = []int{m.Start(), m.End()}
				}
				cx.rel("Engine.FindSubmatchAt[0]=Engine.FindIndicesAt", h, a, x, z, eqInts(x, z))
				evals += 3
				if len(h) > 12 && at >= 4 && at < len(h)-4 {
					at += len(h)/8 - 1 // long embeddings: a stride of offsets plus both ends
				}
			}
		})
	}
	cx.W.C["evaluations"] += evals
	return fi != nil
}

// isValidNoFFFD: reader forms re-decode runes; C11 compares them with the byte forms on valid UTF-8 only (the
// reader forms are compared with std's reader forms on ill-formed input under C01-C03).
func isValidNoFFFD(h []byte) bool { return utf8.Valid(h) }
