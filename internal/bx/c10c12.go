package bx

import (
	"fmt"
	"reflect"
	"regexp"
	"strconv"
	"strings"
	"time"

	"github.com/coregx/coregex"
	"github.com/coregx/coregex/meta"
	"github.com/coregx/coregex/nfa"
	"regexp/syntax"

	"verif/internal/harness"
)

// ---- C10: mode isolation history exploration ------------------------------------------------------------------

// c10Value is one live value in both worlds.
type c10Value struct {
	re  *coregex.Regex
	std *regexp.Regexp
}

var c10IsoSeeds = []string{`a|ab`, `(a|ab)(c|bcd)`, `a*?`, `a+?b*`, `(a*)(a|b)`, `x*|xy`}

// C10IsoSeeds returns the mode-sensitive seed patterns.
func C10IsoSeeds() []string { return c10IsoSeeds }

var c10IsoHays = []string{"ab", "abcd", "aab", "xy", ""}

// C10Isolation explores every sequence of at most depth operations from {compile, copy(i), longest(i)} on the
// seed pattern, checking after every operation that every live value answers like its std twin.
func C10Isolation(w *harness.W, pat string, depth int) {
	type op struct {
		kind string
		arg  int
	}
	var seq []op
	nseq := int64(0)
	var rec func(d int, nlive int)
	check := func() {
		// rebuild both worlds from scratch (values are mutated by Longest, so no sharing between sequences)
		var vals []c10Value
		name := func() string {
			var sb strings.Builder
			for _, o := range seq {
				fmt.Fprintf(&sb, "%s(%d) ", o.kind, o.arg)
			}
			return strings.TrimSpace(sb.String())
		}
		for _, o := range seq {
			switch o.kind {
			case "compile":
				re, err := coregex.Compile(pat)
				if err != nil {
					return
				}
				vals = append(vals, c10Value{re, regexp.MustCompile(pat)})
			case "copy":
				vals = append(vals, c10Value{vals[o.arg].re.Copy(), vals[o.arg].std.Copy()})
			case "longest":
				vals[o.arg].re.Longest()
				vals[o.arg].std.Longest()
			}
		}
		nseq++
		for i, v := range vals {
			for _, h := range c10IsoHays {
				want := v.std.FindStringSubmatchIndex(h)
				got := v.re.FindStringSubmatchIndex(h)
				w.C["evaluations"]++
				if !eqInts(want, got) {
					w.Fail(&harness.Case{Op: "mode-isolation", Mode: "history", Pattern: pat, Hay: strconv.Quote(h), Args: fmt.Sprintf("seq=[%s] value=%d", name(), i), Want: Show(want), Got: Show(got), Cluster: "isolation"})
				}
			}
		}
	}
	rec = func(d, nlive int) {
		if d > 0 {
			check()
		}
		if d == depth {
			return
		}
		if nlive < 4 {
			seq = append(seq, op{"compile", 0})
			rec(d+1, nlive+1)
			seq = seq[:len(seq)-1]
			for i := 0; i < nlive; i++ {
				seq = append(seq, op{"copy", i})
				rec(d+1, nlive+1)
				seq = seq[:len(seq)-1]
			}
		}
		for i := 0; i < nlive; i++ {
			seq = append(seq, op{"longest", i})
			rec(d+1, nlive)
			seq = seq[:len(seq)-1]
		}
	}
	seq = append(seq, op{"compile", 0})
	rec(1, 1)
	w.C["states"] += nseq
	w.C["transitions"] += nseq
	w.C["isolation_sequences"] += nseq
	w.C["distinct_nontrivial"] += nseq
	w.C["traces_validated_against_impl"] += nseq
}

// ---- C12: configurations ------------------------------------------------------------------------------------

// C12Config is one named configuration.
type C12Config struct {
	Name string
	Cfg  meta.Config
}

// C12Configs enumerates every configuration with at most k deviations from the default over the field domains of
// DESIGN §2.2 (K).
func C12Configs(k int) []C12Config {
	type dev struct {
		name string
		set  func(*meta.Config)
	}
	var devs [][]dev // per field, alternatives
	add := func(field string, vals []any, set func(*meta.Config, any)) {
		var ds []dev
		for _, v := range vals {
			v := v
			ds = append(ds, dev{fmt.Sprintf("%s=%v", field, v), func(c *meta.Config) { set(c, v) }})
		}
		devs = append(devs, ds)
	}
	add("EnableDFA", []any{false}, func(c *meta.Config, v any) { c.EnableDFA = v.(bool) })
	add("EnablePrefilter", []any{false}, func(c *meta.Config, v any) { c.EnablePrefilter = v.(bool) })
	add("EnableASCIIOptimization", []any{false}, func(c *meta.Config, v any) { c.EnableASCIIOptimization = v.(bool) })
	add("MaxDFAStates", []any{1, 1000000}, func(c *meta.Config, v any) { c.MaxDFAStates = uint32(v.(int)) })
	add("DeterminizationLimit", []any{10, 100000}, func(c *meta.Config, v any) { c.DeterminizationLimit = v.(int) })
	add("MinLiteralLen", []any{2, 3, 64}, func(c *meta.Config, v any) { c.MinLiteralLen = v.(int) })
	add("MaxLiterals", []any{1, 2, 3, 1000}, func(c *meta.Config, v any) { c.MaxLiterals = v.(int) })
	add("MaxRecursionDepth", []any{10, 1000}, func(c *meta.Config, v any) { c.MaxRecursionDepth = v.(int) })
	var out []C12Config
	var rec func(field int, left int, names []string, sets []func(*meta.Config))
	rec = func(field, left int, names []string, sets []func(*meta.Config)) {
		if field == len(devs) {
			if len(names) == 0 {
				return
			}
			c := meta.DefaultConfig()
			for _, s := range sets {
				s(&c)
			}
			out = append(out, C12Config{strings.Join(names, ","), c})
			return
		}
		rec(field+1, left, names, sets)
		if left > 0 {
			for _, d := range devs[field] {
				rec(field+1, left-1, append(append([]string{}, names...), d.name), append(append([]func(*meta.Config){}, sets...), d.set))
			}
		}
	}
	rec(0, k, nil, nil)
	return out
}

type c12Result struct {
	match bool
	fi    []int
	sub   []int
	all   [][]int
}

func c12Run(re *coregex.Regex, h []byte) (r c12Result, panicMsg string) {
	defer func() {
		if x := recover(); x != nil {
			panicMsg = firstLine(fmt.Sprint(x))
		}
	}()
	r.match = re.Match(h)
	r.fi = re.FindIndex(h)
	r.sub = re.FindSubmatchIndex(h)
	r.all = re.FindAllIndex(h, -1)
	return
}

func (r c12Result) String() string {
	return fmt.Sprintf("Match=%v FindIndex=%s FindSubmatchIndex=%s FindAllIndex=%s", r.match, Show(r.fi), Show(r.sub), Show(r.all))
}

// c12NFARef is the plain NFA simulation of the pattern (independent of meta strategy selection and of std).
type c12NFARef struct {
	vm *nfa.PikeVM
}

func newC12NFARef(p string) *c12NFARef {
	re, err := syntax.Parse(p, syntax.Perl)
	if err != nil {
		return nil
	}
	n, err := nfa.NewDefaultCompiler().CompileRegexp(re)
	if err != nil {
		return nil
	}
	return &c12NFARef{vm: nfa.NewPikeVM(n)}
}

// C12Plan: K(k) configurations × patterns × haystacks, under three CPU masks.
func C12Plan(tier string) *harness.Plan {
	k := 1
	t := Tier{PN: 3, SK: 1, LASCII: 3, LUTF8: 2, LRaw: 2, EmbedW: 1, EmbedPN: 2, TokL: 2, TokN: 5, SeedEmbW: 1, SeedJ: []int{0, 33}, SeedEmbFirst: 200, Pads: []byte{' '}, Budget: 150 * time.Second}
	if tier == "thorough" {
		k = 2
		t.Budget = 25 * time.Minute // thorough: the same programs and inputs under every configuration with at most 2 deviations
	}
	sp := NewSpace(t)
	cfgs := C12Configs(k)
	run := func(w *harness.W, u int) {
		p := sp.Pats[u]
		if _, err := regexp.Compile(p); err != nil {
			return
		}
		def, err := coregex.Compile(p)
		if err != nil {
			return // a compile failure under the default configuration is C09's business
		}
		ref := newC12NFARef(p)
		hs := sp.Haystacks(u)
		// default results, computed once
		base := make([]c12Result, len(hs))
		okBase := make([]bool, len(hs))
		nt := int64(0)
		for i, h := range hs {
			r, pm := c12Run(def, h)
			base[i], okBase[i] = r, pm == ""
			if r.match {
				nt++
			}
			if ref != nil && pm == "" {
				// NFA-only reference: existence and leftmost-first span
				s, e, ok := ref.vm.Search(h)
				var fi []int
				if ok {
					fi = []int{s, e}
				}
				w.C["evaluations"]++
				if ok != r.match || !eqInts(fi, r.fi) {
					w.Fail(&harness.Case{Op: "default-vs-NFA-only", Mode: w.Pass, Pattern: p, Hay: strconv.Quote(string(h)), Want: fmt.Sprintf("nfa: %v %s", ok, Show(fi)), Got: fmt.Sprintf("default: %v %s", r.match, Show(r.fi)), Cluster: "nfaref"})
				}
			}
		}
		w.C["programs"]++
		w.C["states"] += int64(len(hs))
		w.C["distinct_nontrivial"] += nt
		for _, c := range cfgs {
			if err := c.Cfg.Validate(); err != nil {
				w.C["configs_invalid"]++
				if _, err2 := coregex.CompileWithConfig(p, c.Cfg); err2 == nil {
					w.Fail(&harness.Case{Op: "CompileWithConfig-accepts-invalid", Mode: w.Pass, Pattern: p, Hay: `""`, Args: c.Name, Want: "error: " + err.Error(), Got: "<nil>", Cluster: "config"})
				}
				continue
			}
			re, err := coregex.CompileWithConfig(p, c.Cfg)
			if err != nil {
				w.Fail(&harness.Case{Op: "CompileWithConfig", Mode: w.Pass, Pattern: p, Hay: `""`, Args: c.Name, Want: "compiles (default config does)", Got: "error: " + err.Error(), Cluster: "config/" + firstField(c.Name)})
				continue
			}
			w.C["config_programs"]++
			for i, h := range hs {
				if !okBase[i] {
					continue
				}
				r, pm := c12Run(re, h)
				w.C["evaluations"] += 4
				if pm != "" {
					w.Fail(&harness.Case{Op: "config-panic", Mode: w.Pass, Pattern: p, Hay: strconv.Quote(string(h)), Args: c.Name, Want: "no panic", Got: "panic: " + pm, Cluster: "config/" + firstField(c.Name)})
					continue
				}
				if !reflect.DeepEqual(r, base[i]) && (r.String() != base[i].String()) {
					w.Fail(&harness.Case{Op: "config-vs-default", Mode: w.Pass, Pattern: p, Hay: strconv.Quote(string(h)), Args: c.Name, Want: base[i].String(), Got: r.String(), Cluster: "config/" + firstField(c.Name)})
				}
			}
			w.C["transitions"] += int64(len(hs))
			w.C["traces_validated_against_impl"] += int64(len(hs))
		}
		if u%397 == 0 {
			w.Sample(map[string]any{"pattern": p, "configs": len(cfgs), "haystacks": len(hs), "pass": w.Pass, "first_config": cfgs[0].Name, "last_config": cfgs[len(cfgs)-1].Name})
		}
	}
	var names []string
	for _, c := range cfgs {
		names = append(names, c.Name)
	}
	if len(names) > 40 {
		names = append(names[:40], fmt.Sprintf("… %d more", len(cfgs)-40))
	}
	b := sp.Bounds()
	b["config_deviations_max"] = k
	b["configs"] = len(cfgs)
	b["config_list"] = names
	return &harness.Plan{
		Units: len(sp.Pats), Chunk: 16, Run: run,
		Describe: func(u int) string { return fmt.Sprintf("pattern %q", sp.Pats[u]) },
		Replay: func(w *harness.W, c *harness.Case) {
			// replay: re-run the whole pattern unit (all configs) restricted to the recorded haystack
			for u, p := range sp.Pats {
				if p == c.Pattern {
					run(w, u)
					return
				}
			}
		},
		Rule:   "Every configuration with at most k deviations from DefaultConfig over the listed field domains (invalid ones must be rejected by CompileWithConfig), for every pattern AST up to N nodes and every seed neighbour, on every haystack of the bounded space: Match, FindIndex, FindSubmatchIndex, FindAllIndex under the configuration must equal the results under the default configuration, and the default's boolean and first span must equal the plain NFA simulation (nfa.PikeVM over the default compiler). Repeated under three CPU-feature masks (separate worker processes). states = (program, haystack) pairs; transitions = (configuration, program, haystack) evaluations; non-trivial = the default engine reports a match.",
		Level:  "model_checking",
		Bounds: b, Budget: t.Budget,
		Passes: []harness.Pass{{Name: "native"}, {Name: "noavx2", Env: []string{"GODEBUG=cpu.avx2=off"}}, {Name: "noavx2-nossse3", Env: []string{"GODEBUG=cpu.avx2=off,cpu.ssse3=off"}}},
		Assume: []string{"reference = the default configuration and the plain PikeVM of the same tree (differential; agreement of the default with package regexp is C01-C04's business)", "configuration field domains and deviation bound as listed", "x/sys/cpu honours GODEBUG=cpu.<feature>=off"},
	}
}

func firstField(s string) string {
	if i := strings.IndexAny(s, "=,"); i >= 0 {
		return s[:i]
	}
	return s
}
