package bx

import (
	"fmt"
	"regexp"
	"strconv"
	"strings"
	"time"

	"github.com/coregx/coregex"

	"verif/internal/harness"
	"verif/internal/space"
)

// C09: Compile accepts std's language with std's error text; metadata accessors equal.

var c09Syms = []string{"a", "b", ".", "*", "+", "?", "|", "(", ")", "[", "]", "^", "$", `\`, "{", "}", "1", ",", "-", ":"}
var c09Esc = []string{`\b`, `\B`, `\d`, `\w`, `\pL`, `\x{10FFFF}`, `(?i)`, `(?P<n>`}
var c09QuoteSyms = []string{`\`, ".", "+", "*", "?", "(", ")", "|", "[", "]", "{", "}", "^", "$", "a", "é", "\xff"}
var c09Hays = []string{"", "a", "b", "ab", "ba", "aa", "a1", "1", ".", "\n", "aab", "é", "A"}

func errText(err error) string {
	if err == nil {
		return "<nil>"
	}
	return err.Error()
}

func mustPanic(f func()) (msg string) {
	defer func() {
		if r := recover(); r != nil {
			msg = fmt.Sprint(r)
		}
	}()
	f()
	return "<no panic>"
}

// c09One checks one candidate pattern string.
func c09One(w *harness.W, s string) (accepted bool) {
	cx := &Ctx{Pat: s, Mode: "first", W: w, Strategy: "compile"}
	key := []byte{}
	std, serr := regexp.Compile(s)
	var re *coregex.Regex
	var cerr error
	cx.guard("Compile", key, "", func() {
		re, cerr = coregex.Compile(s)
		if errText(serr) != errText(cerr) {
			cx.Fail("Compile", key, "", errText(serr), errText(cerr))
		}
	})
	stdP, sperr := regexp.CompilePOSIX(s)
	var reP *coregex.Regex
	cx.guard("CompilePOSIX", key, "", func() {
		var err error
		reP, err = coregex.CompilePOSIX(s)
		if errText(sperr) != errText(err) {
			cx.Fail("CompilePOSIX", key, "", errText(sperr), errText(err))
		}
	})
	w.C["evaluations"] += 2
	if serr != nil {
		wantMsg := mustPanic(func() { regexp.MustCompile(s) })
		gotMsg := mustPanic(func() { coregex.MustCompile(s) })
		if wantMsg != gotMsg {
			cx.Fail("MustCompile-panic", key, "", wantMsg, gotMsg)
		}
		w.C["evaluations"]++
	}
	if sperr != nil {
		wantMsg := mustPanic(func() { regexp.MustCompilePOSIX(s) })
		gotMsg := mustPanic(func() { coregex.MustCompilePOSIX(s) })
		if wantMsg != gotMsg {
			cx.Fail("MustCompilePOSIX-panic", key, "", wantMsg, gotMsg)
		}
		w.C["evaluations"]++
	}
	if serr == nil && cerr == nil && re != nil {
		accepted = true
		cx.guard("metadata", key, "", func() { c09Meta(cx, key, std, re, false) })
	}
	if sperr == nil && reP != nil && stdP != nil && (serr != nil || stdP.String() != "" || true) {
		cx.Mode = "posix"
		cx.guard("metadata-posix", key, "", func() { c09Meta(cx, key, stdP, reP, true) })
		cx.Mode = "first"
	}
	cx.Flush(key)
	return accepted
}

func c09Meta(cx *Ctx, key []byte, std *regexp.Regexp, re *coregex.Regex, posix bool) {
	w := cx.W
	if std.String() != re.String() {
		cx.Fail("String", key, "", std.String(), re.String())
	}
	if std.NumSubexp() != re.NumSubexp() {
		cx.Fail("NumSubexp", key, "", std.NumSubexp(), re.NumSubexp())
	}
	if !eqStrings(std.SubexpNames(), re.SubexpNames()) {
		cx.Fail("SubexpNames", key, "", std.SubexpNames(), re.SubexpNames())
	}
	for _, n := range append(std.SubexpNames(), "n", "absent_", "") {
		if std.SubexpIndex(n) != re.SubexpIndex(n) {
			cx.Fail("SubexpIndex", key, "name="+n, std.SubexpIndex(n), re.SubexpIndex(n))
		}
	}
	sp, sc := std.LiteralPrefix()
	cp, cc := re.LiteralPrefix()
	if sp != cp || sc != cc {
		cx.Fail("LiteralPrefix", key, "", fmt.Sprintf("%q,%v", sp, sc), fmt.Sprintf("%q,%v", cp, cc))
	}
	w.C["evaluations"] += 5
	if posix {
		return
	}
	// MarshalText -> UnmarshalText round trip; Copy
	mt, err := re.MarshalText()
	smt, _ := std.MarshalText()
	if err != nil || string(mt) != string(smt) {
		cx.Fail("MarshalText", key, "", string(smt), fmt.Sprint(string(mt), err))
	}
	var re2 coregex.Regex
	if err := re2.UnmarshalText(mt); err != nil {
		cx.Fail("UnmarshalText", key, "", "<nil>", err.Error())
	} else {
		cp := re.Copy()
		if cp == nil || cp.String() != re.String() {
			cx.Fail("Copy", key, "", re.String(), "nil or different String()")
		} else {
			for _, h := range c09Hays {
				a := re.FindStringSubmatchIndex(h)
				b := re2.FindStringSubmatchIndex(h)
				c := cp.FindStringSubmatchIndex(h)
				if !eqInts(a, b) {
					cx.Fail("UnmarshalText-behaviour", key, "h="+strconv.Quote(h), a, b)
				}
				if !eqInts(a, c) {
					cx.Fail("Copy-behaviour", key, "h="+strconv.Quote(h), a, c)
				}
			}
		}
	}
	// UnmarshalText overwrites the receiver whatever it held before (package regexp always compiles the text with
	// Compile): receivers that were a POSIX value and a Longest() value must end up behaving like a fresh Compile
	rp, sp2 := coregex.MustCompilePOSIX("x+"), regexp.MustCompilePOSIX("x+")
	rl, sl := coregex.MustCompile("x|xy"), regexp.MustCompile("x|xy")
	rl.Longest()
	sl.Longest()
	for _, rc := range []struct {
		name string
		c    *coregex.Regex
		s    *regexp.Regexp
	}{{"posix", rp, sp2}, {"longest", rl, sl}} {
		cerr, serr := rc.c.UnmarshalText(mt), rc.s.UnmarshalText(smt)
		if errText(serr) != errText(cerr) {
			cx.Fail("UnmarshalText-onto", key, "receiver="+rc.name, errText(serr), errText(cerr))
			continue
		}
		if cerr != nil {
			continue
		}
		if rc.c.String() != rc.s.String() {
			cx.Fail("UnmarshalText-onto-String", key, "receiver="+rc.name, rc.s.String(), rc.c.String())
		}
		lp, lc := rc.c.LiteralPrefix()
		wp, wc := re.LiteralPrefix()
		if lp != wp || lc != wc {
			cx.Fail("UnmarshalText-onto-LiteralPrefix", key, "receiver="+rc.name, fmt.Sprintf("%q,%v", wp, wc), fmt.Sprintf("%q,%v", lp, lc))
		}
		for _, h := range c09Hays {
			a, b := re.FindStringSubmatchIndex(h), rc.c.FindStringSubmatchIndex(h)
			// the std twin says whether the receiver's old mode may survive: it must answer like a fresh std value
			if eqInts(std.FindStringSubmatchIndex(h), rc.s.FindStringSubmatchIndex(h)) && !eqInts(a, b) {
				cx.Fail("UnmarshalText-onto-behaviour", key, "receiver="+rc.name+" h="+strconv.Quote(h), a, b)
			}
		}
	}
	w.C["evaluations"] += 3 + 2*int64(3+len(c09Hays))
}

func c09Quote(w *harness.W, s string) {
	cx := &Ctx{Pat: s, Mode: "quotemeta", W: w, Strategy: "quotemeta"}
	key := []byte{}
	q := regexp.QuoteMeta(s)
	cx.guard("QuoteMeta", key, "", func() {
		if got := coregex.QuoteMeta(s); got != q {
			cx.Fail("QuoteMeta", key, "", q, got)
		}
	})
	std, serr := regexp.Compile(q)
	re, cerr := coregex.Compile(q)
	if errText(serr) != errText(cerr) {
		cx.Fail("Compile(QuoteMeta)", key, "", errText(serr), errText(cerr))
	} else if serr == nil {
		for _, h := range []string{s, "x" + s + "y", s + s, strings.ToUpper(s), "a", ""} {
			cx.guard("QuoteMeta-roundtrip", key, "h="+strconv.Quote(h), func() {
				want := std.FindStringIndex(h)
				if got := re.FindStringIndex(h); !eqInts(want, got) {
					cx.Fail("QuoteMeta-roundtrip", key, "h="+strconv.Quote(h), want, got)
				}
			})
		}
	}
	w.C["evaluations"] += 8
	cx.Flush(key)
}

// c09UniSyms: operators mixed with literal symbols outside ASCII.
var c09UniSyms = []string{"a", ".", "*", "(", ")", "|", `\`, "é", "\uFFFD", "\u212A", "\xff", "\x00"}

// limit families: every parameter value
type c09Family struct {
	name string
	max  int
	gen  func(n int) string
}

func c09Families(thorough bool) []c09Family {
	depth := 1100
	rep := 1100
	alt, nest2, nest3, repc, grp, ngrp := 300, 24, 8, 40, 120, 80
	if thorough {
		alt, nest2, nest3, repc, grp, ngrp = 2000, 40, 12, 400, 300, 200
	}
	return []c09Family{
		{"nest-capture", depth, func(n int) string { return strings.Repeat("(", n) + "a" + strings.Repeat(")", n) }},
		{"nest-noncapture", depth, func(n int) string { return strings.Repeat("(?:", n) + "a" + strings.Repeat(")", n) }},
		{"nest-flag", depth, func(n int) string { return strings.Repeat("(?i:", n) + "a" + strings.Repeat(")", n) }},
		{"nest-star", 300, func(n int) string { return strings.Repeat("(?:", n) + "a" + strings.Repeat(")*", n) }},
		// bounded repetition costs the NFA compiler more than one frame per nesting level
		{"nest-opt-noncapture", depth, func(n int) string { return strings.Repeat("(?:", n) + "a" + strings.Repeat("){0,1}", n) }},
		{"nest-opt-capture", depth, func(n int) string { return strings.Repeat("(", n) + "a" + strings.Repeat("){0,1}", n) }},
		{"nest-quest", depth, func(n int) string { return strings.Repeat("(?:", n) + "a" + strings.Repeat(")?", n) }},
		{"nest-range", 300, func(n int) string { return strings.Repeat("(?:", n) + "a" + strings.Repeat("){1,2}", n) }},
		{"repeat", rep, func(n int) string { return fmt.Sprintf("a{%d}", n) }},
		{"repeat-range", rep, func(n int) string { return fmt.Sprintf("a{%d,%d}", n/2, n) }},
		{"repeat-open", rep, func(n int) string { return fmt.Sprintf("a{%d,}", n) }},
		// the widest ranges the parser accepts (n - m up to 1000), bare, inside groups and next to other atoms
		{"repeat-range-from0", rep, func(n int) string { return fmt.Sprintf("a{0,%d}", n) }},
		{"repeat-range-from1-group", rep, func(n int) string { return fmt.Sprintf("x(a{1,%d})y", n) }},
		{"repeat-range-from0-nested", rep, func(n int) string { return fmt.Sprintf("((a{0,%d}))b", n) }},
		{"repeat-range-class-named", rep, func(n int) string { return fmt.Sprintf("^(?P<key>[a-z]{1,%d})=(?P<val>.*)$", n) }},
		{"repeat-nested", nest2, func(n int) string { return fmt.Sprintf("(?:a{%d}){%d}", n, n) }},
		{"repeat-nested3", nest3, func(n int) string { return fmt.Sprintf("(?:(?:a{%d}){%d}){%d}", n, n, n) }},
		{"repeat-class", repc, func(n int) string { return fmt.Sprintf(`\pL{%d}`, n) }},
		{"alternation", alt, func(n int) string {
			var sb strings.Builder
			for i := 0; i < n; i++ {
				if i > 0 {
					sb.WriteByte('|')
				}
				fmt.Fprintf(&sb, "w%d", i)
			}
			return sb.String()
		}},
		{"class-ranges", 300, func(n int) string {
			var sb strings.Builder
			sb.WriteByte('[')
			for i := 0; i < n; i++ {
				fmt.Fprintf(&sb, `\x{%x}-\x{%x}`, 0x100+4*i, 0x100+4*i+1)
			}
			sb.WriteByte(']')
			return sb.String()
		}},
		{"groups", grp, func(n int) string { return strings.Repeat("(a)", n) }},
		{"named-groups", ngrp, func(n int) string {
			var sb strings.Builder
			for i := 0; i < n; i++ {
				fmt.Fprintf(&sb, "(?P<g%d>a)", i)
			}
			return sb.String()
		}},
	}
}

// C09Plan builds the plan: string blocks, QuoteMeta blocks, limit-family blocks.
func C09Plan(tier string) *harness.Plan {
	thorough := tier == "thorough"
	l20, l28 := 4, 3
	budget := 150 * time.Second
	if thorough {
		l20, l28, budget = 5, 4, 25*time.Minute
	}
	syms28 := append(append([]string{}, c09Syms...), c09Esc...)
	pow := func(b, e int) int {
		r := 1
		for i := 0; i < e; i++ {
			r *= b
		}
		return r
	}
	count := func(b, l int) int {
		n := 0
		for i := 0; i <= l; i++ {
			n += pow(b, i)
		}
		return n
	}
	// literal symbols outside ASCII: a 2-byte rune, U+FFFD itself, KELVIN SIGN, an ill-formed byte and NUL, mixed with
	// the basic operators (metadata such as LiteralPrefix and String depend on how literal runes are decoded)
	lU := 4
	if thorough {
		lU = 5
	}
	nU := count(len(c09UniSyms), lU)
	bU := (nU + 2047) / 2048
	n20, n28 := count(20, l20), count(28, l28)
	nQ := count(len(c09QuoteSyms), 3)
	fams := c09Families(thorough)
	nF := 0
	for _, f := range fams {
		nF += f.max
	}
	const blk = 2048
	b20, b28, bQ, bF := (n20+blk-1)/blk, (n28+blk-1)/blk, (nQ+blk-1)/blk, (nF+63)/64
	// nth word over an alphabet in shortlex order
	nth := func(syms []string, idx int) string {
		l := 0
		for idx >= pow(len(syms), l) {
			idx -= pow(len(syms), l)
			l++
		}
		parts := make([]string, l)
		for i := l - 1; i >= 0; i-- {
			parts[i] = syms[idx%len(syms)]
			idx /= len(syms)
		}
		return strings.Join(parts, "")
	}
	run := func(w *harness.W, u int) {
		e0 := w.C["evaluations"]
		doStrings := func(syms []string, total, b int) {
			lo, hi := b*blk, (b+1)*blk
			if hi > total {
				hi = total
			}
			acc := int64(0)
			for i := lo; i < hi; i++ {
				if c09One(w, nth(syms, i)) {
					acc++
				}
			}
			w.C["states"] += int64(hi - lo)
			w.C["distinct_nontrivial"] += acc
			w.C["traces_validated_against_impl"] += int64(hi - lo)
			if b == 0 || lo+blk >= total {
				w.Sample(map[string]any{"kind": "pattern strings", "alphabet": len(syms), "first": nth(syms, lo), "last": nth(syms, hi-1), "accepted_by_std": acc})
			}
		}
		switch {
		case u < b20:
			doStrings(c09Syms, n20, u)
		case u < b20+b28:
			doStrings(syms28, n28, u-b20)
		case u < b20+b28+bU:
			doStrings(c09UniSyms, nU, u-b20-b28)
		case u < b20+b28+bU+bQ:
			b := u - b20 - b28 - bU
			lo, hi := b*blk, (b+1)*blk
			if hi > nQ {
				hi = nQ
			}
			for i := lo; i < hi; i++ {
				c09Quote(w, nth(c09QuoteSyms, i))
			}
			w.C["states"] += int64(hi - lo)
			w.C["distinct_nontrivial"] += int64(hi - lo)
			w.C["traces_validated_against_impl"] += int64(hi - lo)
		default:
			b := u - b20 - b28 - bU - bQ
			lo, hi := b*64, (b+1)*64
			i := 0
			for _, f := range fams {
				for n := 1; n <= f.max; n++ {
					if i >= lo && i < hi {
						if c09One(w, f.gen(n)) {
							w.C["distinct_nontrivial"]++
						}
						w.C["states"]++
						w.C["traces_validated_against_impl"]++
						w.C["family_"+f.name]++
					}
					i++
				}
			}
		}
		w.C["transitions"] += w.C["evaluations"] - e0
	}
	return &harness.Plan{
		Units: b20 + b28 + bU + bQ + bF, Chunk: 1, Run: run,
		Describe: func(u int) string { return fmt.Sprintf("string block %d", u) },
		Replay: func(w *harness.W, c *harness.Case) {
			if c.Mode == "quotemeta" {
				c09Quote(w, c.Pattern)
			} else {
				c09One(w, c.Pattern)
			}
		},
		Rule:  "Every string of at most L symbols over the 20-symbol pattern alphabet (and over 28 symbols including multi-character escapes at L-1, and over 12 symbols mixing operators with non-ASCII literal symbols — é, U+FFFD, KELVIN SIGN, an ill-formed byte, NUL) through Compile, CompilePOSIX, MustCompile, MustCompilePOSIX (acceptance and exact error/panic text vs package regexp); for accepted strings String, NumSubexp, SubexpNames, SubexpIndex (every name + absent names), LiteralPrefix, MarshalText/UnmarshalText and Copy (behaviour compared on 13 haystacks); QuoteMeta on every string of at most 3 symbols over the 14 metacharacters + {a, é, 0xFF} with the round trip Compile(QuoteMeta(s)); limit families (nesting, repetition, alternation width, class ranges, group counts) at every parameter value up to the stated maxima. states = candidate strings; transitions = API comparisons; non-trivial = std accepts the string.",
		Level: "model_checking", Budget: budget, UnitTimeout: 300 * time.Second,
		Bounds: map[string]any{"len_20_symbols": l20, "len_28_symbols": l28, "strings": n20 + n28 + nU, "len_non_ascii_literal_symbols": lU, "quotemeta_strings": nQ, "family_cases": nF},
		Assume: []string{"oracle: package regexp of the repository's toolchain", "only strings within the stated alphabets/lengths and the listed limit families", "known findings matched by exact case hash"},
	}
}

var _ = space.SigmaASCII
