package bx

import (
	"bytes"
	"fmt"
	"strconv"
	"time"
	"unsafe"

	"verif/internal/harness"
	"verif/internal/space"
)

// C08: Replace / Expand / Split against package regexp.

var c08TemplateSyms = []string{"$", "{", "}", "0", "1", "n", "x", "_"}

// c08Programs: capture-bearing programs for the template grammar sweep (the template expansion code does not
// depend on the engine, so the full template space is crossed with a handful of programs and sources).
var c08Programs = []string{
	`(?P<n>a)(b)?`,
	`(a)(b)(c)(d)(e)(f)(g)(h)(i)(j)(?P<x1>k)?`, // 11 groups: $10 / $11 / $1 followed by a digit
	`(?P<n_>x*)`,
	`a`,
	`(?P<n>a)|(?P<x>b)`,
	`(é)(?P<n0>0)?`,
}

var c08Sources = []string{"", "a", "ab", "ba", "abcdefghijk", "xxaxx", "é0é", "b", "aab ab"}

// c08Repls: replacement templates for the engine-dependent replace loops.
var c08Repls = []string{"", "x", "$1", "${1}y", "$0$0", "$$", "$x", "[$2]", "${n}", "$1x", "$10"}

func sameBacking(a, b []byte) bool {
	if len(a) == 0 || len(b) == 0 {
		return false
	}
	pa, pb := uintptr(unsafe.Pointer(&a[0])), uintptr(unsafe.Pointer(&b[0]))
	return pa < pb+uintptr(cap(b)) && pb < pa+uintptr(cap(a))
}

// templateUnit runs every template of the block against every program and source.
func c08TemplateUnit(w *harness.W, templates [][]byte) {
	for _, p := range c08Programs {
		cx, ok := NewCtx(w, p, "first", false, false)
		if !ok {
			continue
		}
		cx.Mode = "template"
		for _, src := range c08Sources {
			sb := []byte(src)
			mv := cx.Std.FindSubmatchIndex(sb)
			// match vectors: std's, a short one, one with -1 entries, nil
			vecs := [][]int{mv}
			if mv != nil {
				vecs = append(vecs, mv[:2])
				m2 := append([]int(nil), mv...)
				if len(m2) >= 4 {
					m2[2], m2[3] = -1, -1
				}
				vecs = append(vecs, m2)
			}
			for _, t := range templates {
				ts := string(t)
				nt := false
				key := append(append(append([]byte{}, sb...), 0), t...)
				cx.guard("ReplaceAll", key, "", func() {
					want := cx.Std.ReplaceAll(sb, t)
					got := cx.Re.ReplaceAll(sb, t)
					if !bytes.Equal(want, got) {
						cx.Fail("ReplaceAll", key, "", want, got)
					}
					if !bytes.Equal(want, sb) {
						nt = true
					}
					wantS := cx.Std.ReplaceAllString(src, ts)
					if gotS := cx.Re.ReplaceAllString(src, ts); wantS != gotS {
						cx.Fail("ReplaceAllString", key, "", wantS, gotS)
					}
				})
				cx.W.C["evaluations"] += 2
				for vi, v := range vecs {
					if v == nil {
						continue
					}
					a := "vec=" + strconv.Itoa(vi)
					cx.guard("Expand", key, a, func() {
						want := cx.Std.Expand([]byte("dst:"), t, sb, v)
						got := cx.Re.Expand([]byte("dst:"), t, sb, v)
						if !bytes.Equal(want, got) {
							cx.Fail("Expand", key, a, want, got)
						}
						wantS := cx.Std.ExpandString(nil, ts, src, v)
						gotS := cx.Re.ExpandString(nil, ts, src, v)
						if !bytes.Equal(wantS, gotS) {
							cx.Fail("ExpandString", key, a, wantS, gotS)
						}
					})
					cx.W.C["evaluations"] += 2
				}
				cx.W.C["states"]++
				if nt {
					cx.W.C["distinct_nontrivial"]++
				}
				cx.Flush(key)
			}
		}
	}
}

// c08PatternBody: the engine-dependent replace loops and Split on one (pattern, source).
func (cx *Ctx) OpsC08(h []byte) bool {
	src := string(h)
	evals := int64(0)
	matched := cx.Std.Match(h)
	for _, r := range c08Repls {
		rb := []byte(r)
		a := "repl=" + strconv.Quote(r)
		cx.guard("ReplaceAll", h, a, func() {
			want := cx.Std.ReplaceAll(h, rb)
			got := cx.Re.ReplaceAll(h, rb)
			if !bytes.Equal(want, got) {
				cx.Fail("ReplaceAll", h, a, want, got)
			}
			if len(h) > 0 && sameBacking(got, h) {
				cx.Fail("ReplaceAll-fresh-copy", h, a, "result does not alias src", "result aliases src")
			}
			wantS := cx.Std.ReplaceAllString(src, r)
			if gotS := cx.Re.ReplaceAllString(src, r); wantS != gotS {
				cx.Fail("ReplaceAllString", h, a, wantS, gotS)
			}
		})
		evals += 2
	}
	for _, r := range []string{"", "x", "$1"} {
		rb := []byte(r)
		a := "repl=" + strconv.Quote(r)
		cx.guard("ReplaceAllLiteral", h, a, func() {
			want := cx.Std.ReplaceAllLiteral(h, rb)
			got := cx.Re.ReplaceAllLiteral(h, rb)
			if !bytes.Equal(want, got) {
				cx.Fail("ReplaceAllLiteral", h, a, want, got)
			}
			if len(h) > 0 && sameBacking(got, h) {
				cx.Fail("ReplaceAllLiteral-fresh-copy", h, a, "result does not alias src", "result aliases src")
			}
			wantS := cx.Std.ReplaceAllLiteralString(src, r)
			if gotS := cx.Re.ReplaceAllLiteralString(src, r); wantS != gotS {
				cx.Fail("ReplaceAllLiteralString", h, a, wantS, gotS)
			}
		})
		evals += 2
	}
	type fn struct {
		name string
		f    func([]byte) []byte
	}
	fns := []fn{
		{"identity", func(b []byte) []byte { return b }},
		{"const", func(b []byte) []byte { return []byte("<>") }},
		{"upper", func(b []byte) []byte { return bytes.ToUpper(b) }},
		{"len", func(b []byte) []byte { return []byte(strconv.Itoa(len(b))) }},
		{"dollar", func(b []byte) []byte { return []byte("$1") }},
	}
	for _, f := range fns {
		f := f
		a := "func=" + f.name
		cx.guard("ReplaceAllFunc", h, a, func() {
			var seenW, seenG []string
			want := cx.Std.ReplaceAllFunc(h, func(b []byte) []byte { seenW = append(seenW, string(b)); return f.f(b) })
			got := cx.Re.ReplaceAllFunc(h, func(b []byte) []byte { seenG = append(seenG, string(b)); return f.f(b) })
			if !bytes.Equal(want, got) {
				cx.Fail("ReplaceAllFunc", h, a, want, got)
			} else if !eqStrings(seenW, seenG) {
				cx.Fail("ReplaceAllFunc-args", h, a, seenW, seenG)
			}
			wantS := cx.Std.ReplaceAllStringFunc(src, func(s string) string { return string(f.f([]byte(s))) })
			gotS := cx.Re.ReplaceAllStringFunc(src, func(s string) string { return string(f.f([]byte(s))) })
			if wantS != gotS {
				cx.Fail("ReplaceAllStringFunc", h, a, wantS, gotS)
			}
		})
		evals += 2
	}
	pieces := len(cx.Std.Split(src, -1))
	seen := map[int]bool{}
	for _, n := range []int{-1, 0, 1, 2, 3, pieces, pieces + 1} {
		if seen[n] {
			continue
		}
		seen[n] = true
		a := fmt.Sprintf("n=%d", n)
		cx.guard("Split", h, a, func() {
			want := cx.Std.Split(src, n)
			if got := cx.Re.Split(src, n); !eqStrings(want, got) {
				cx.Fail("Split", h, a, want, got)
			}
		})
		evals++
	}
	cx.W.C["evaluations"] += evals
	return matched
}

// C08Plan: template-grammar units followed by pattern units.
func C08Plan(tier string) *harness.Plan {
	maxT := 4
	pn := 3
	budget := 150 * time.Second
	if tier == "thorough" {
		maxT, pn, budget = 5, 4, 25*time.Minute
	}
	var templates [][]byte
	space.Words(c08TemplateSyms, maxT, func(b []byte) { templates = append(templates, append([]byte(nil), b...)) })
	// a few longer templates that exercise name termination and multi-digit indices
	for _, t := range []string{"${n}x", "$n_x", "${n_}", "$10", "$11", "$1x1", "${10}0", "${x1}", "$x1", "${", "${n", "$ {n}", "${1x}", "$-1", "${01}", "$001", "$99999999999999999999"} {
		templates = append(templates, []byte(t))
	}
	const blk = 256
	nTU := (len(templates) + blk - 1) / blk
	t := Tier{PN: pn, SK: 0, LASCII: 3, LUTF8: 2, LRaw: 2, EmbedW: -1, TokL: 2, TokN: 5, SeedEmbW: -1}
	sp := NewSpace(t)
	extra := []string{`(?P<n>a)(b)?`, `(a)|b`, `(a*)(b*)`, `(?P<first>\w)(?P<rest>\w*)`, `()`, `(a)(b)(c)(d)(e)(f)(g)(h)(i)(j)(k)`, `x*`, `(?:)`, `\b`, `(é)|a`}
	nPat := len(sp.Pats) + len(extra)
	extraHs := space.Union(space.WordList([]string{"a", "b", "x", " ", "é"}, 4), [][]byte{[]byte("abcdefghijk"), []byte("hello world")})
	run := func(w *harness.W, u int) {
		if u < nTU {
			lo, hi := u*blk, (u+1)*blk
			if hi > len(templates) {
				hi = len(templates)
			}
			e0 := w.C["evaluations"]
			c08TemplateUnit(w, templates[lo:hi])
			w.C["transitions"] += w.C["evaluations"] - e0
			w.C["traces_validated_against_impl"] += int64(hi-lo) * int64(len(c08Programs)*len(c08Sources))
			if u == 0 || u == nTU-1 {
				w.Sample(map[string]any{"kind": "template block", "first": string(templates[lo]), "last": string(templates[hi-1]), "programs": c08Programs, "sources": c08Sources})
			}
			return
		}
		i := u - nTU
		var p string
		var hs [][]byte
		if i < len(sp.Pats) {
			p, hs = sp.Pats[i], sp.Haystacks(i)
		} else {
			p, hs = extra[i-len(sp.Pats)], extraHs
		}
		cx, ok := NewCtx(w, p, "first", false, false)
		if !ok {
			return
		}
		w.C["programs"]++
		e0 := w.C["evaluations"]
		nt := int64(0)
		for _, h := range hs {
			if cx.OpsC08(h) {
				nt++
			}
			cx.Flush(h)
		}
		w.C["states"] += int64(len(hs))
		w.C["transitions"] += w.C["evaluations"] - e0
		w.C["traces_validated_against_impl"] += int64(len(hs))
		w.C["distinct_nontrivial"] += nt
		if i%499 == 0 {
			w.Sample(map[string]any{"kind": "pattern", "pattern": p, "sources": len(hs), "nontrivial": nt})
		}
	}
	return &harness.Plan{
		Units: nTU + nPat, Chunk: 8, Run: run,
		Describe: func(u int) string {
			if u < nTU {
				return fmt.Sprintf("template block %d", u)
			}
			if i := u - nTU; i < len(sp.Pats) {
				return fmt.Sprintf("pattern %q", sp.Pats[i])
			}
			return fmt.Sprintf("pattern %q", extra[u-nTU-len(sp.Pats)])
		},
		Replay: func(w *harness.W, c *harness.Case) {
			cx, ok := NewCtx(w, c.Pattern, "first", false, false)
			if !ok {
				return
			}
			h := c.HayBytes()
			if c.Mode == "template" {
				// template case: the haystack field is src \x00 template
				i := bytes.IndexByte(h, 0)
				old, oldS := c08Programs, c08Sources
				c08Programs, c08Sources = []string{c.Pattern}, []string{string(h[:i])}
				c08TemplateUnit(w, [][]byte{h[i+1:]})
				c08Programs, c08Sources = old, oldS
				return
			}
			cx.OpsC08(h)
			cx.Flush(h)
		},
		Rule:  "Template grammar: every template string of at most T symbols over {$ { } 0 1 n x _} (plus listed longer ones) through ReplaceAll, ReplaceAllString, Expand, ExpandString (std match vector, truncated vector, vector with -1 entries, dst prefix) on 6 capture-bearing programs × 9 sources; replace loops: every pattern AST up to N nodes and every seed, on every source up to L symbols, through ReplaceAll(String) with 11 templates, ReplaceAllLiteral(String), ReplaceAll(String)Func with 5 functions (also comparing the arguments passed to the function), Split with n in {-1,0,1,2,3,pieces,pieces+1}; compared byte-for-byte with package regexp, plus 'result does not alias src'. states = (program, source[, template]) cases; transitions = API calls compared; non-trivial = the oracle changes the source / reports a match.",
		Level: "model_checking", Budget: budget,
		Bounds: map[string]any{"template_symbols_max": maxT, "templates": len(templates), "pattern_ast_nodes_max": pn, "patterns": nPat, "source_symbols_ascii": 3, "source_symbols_utf8": 2, "source_symbols_raw": 2},
		Assume: []string{"oracle: package regexp", "bounds on template length, pattern size and source length as stated", "known findings matched by exact case hash"},
	}
}
