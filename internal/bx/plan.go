package bx

import (
	"fmt"
	"os"
	"path/filepath"
	"regexp/syntax"
	"strconv"
	"strings"
	"time"

	"verif/internal/harness"
	"verif/internal/space"
)

// Tier describes the bounded spaces of one tier of the program × input sweep.
type Tier struct {
	PN           int    // pattern ASTs up to this many nodes
	SK           int    // seed neighbourhood edits (-1 = no seeds)
	LateSKDelta  int    // the third-session seeds (space.Seed.Late) get SK-LateSKDelta edits (thorough tiers: 1)
	LASCII       int    // haystack symbols over SigmaASCII
	LBig         int    // symbols over SigmaASCII for the large P patterns (more than EmbedPN nodes); 0 = LASCII
	LUTF8Big     int    // symbols over SigmaUTF8 for the large P patterns; 0 = LUTF8
	LRawBig      int    // symbols over SigmaRaw for the large P patterns; 0 = LRaw
	LUTF8        int    // over SigmaUTF8
	LRaw         int    // over SigmaRaw
	EmbedW       int    // embeddings: max |w| over SigmaUTF8 (-1 = none)
	EmbedPN      int    // embeddings are applied to P patterns with at most this many AST nodes (0 = all)
	HugePN       int    // P patterns with more than this many AST nodes get only ASCII haystacks of ≤ LHuge symbols (0 = off)
	LHuge        int    // symbols over SigmaASCII for the patterns beyond HugePN
	SeedJ        []int  // right-pad lengths of the seed embeddings
	SeedEmbFirst int    // when > 0 only the first SeedEmbFirst seed patterns (the seeds themselves come first) get embeddings
	Pads         []byte // embedding pad bytes (default: 'a' and ' ')
	SeedEmbTokN  int    // token alphabet size for the seeds that get embeddings (0 = TokN)
	SeedTokL     int    // the first SeedEmbFirst seed patterns: sequences of ≤ SeedTokL tokens (0 = TokL) ...
	SeedTokN     int    // ... over this many tokens (0 = TokN)
	TokL         int    // seed haystacks: sequences of ≤ TokL tokens
	TokN         int    // token alphabet size for seeds
	SeedEmbW     int    // seed embeddings: |w| ≤ this many tokens
	Modes        []string
	Budget       time.Duration
}

// Space is the materialised unit space of a tier.
type Space struct {
	T    Tier
	Pats []string // P(N) then S(k) \ P(N)
	NP   int      // number of P patterns
	HP   [][]byte // haystacks for P patterns (without embeddings)
	HPE  [][]byte // haystacks for small P patterns (with embeddings)
	NPE  int      // P patterns [0,NPE) get HPE
	HH   [][]byte // haystacks for the P patterns beyond HugePN
	NPH  int      // P patterns [NPH,NP) get HH
}

var embedJ1 = []int{0, 33}
var embedJ2 = []int{0, 1, 31, 33, 100}

// NewSpace enumerates the tier's patterns and the shared haystack list. The pattern list is cached under
// /verif/.work/cache (written by the coordinator, read by the workers) because enumerating it is the dominant
// start-up cost of a worker.
func NewSpace(t Tier) *Space {
	sp := &Space{T: t}
	key := fmt.Sprintf("P%d-S%d.%d-E%d-H%d-n%d", t.PN, t.SK, t.LateSKDelta, t.EmbedPN, t.HugePN, len(space.Seeds))
	root := os.Getenv("VF_ROOT")
	if root == "" {
		root = "/verif"
	}
	cache := filepath.Join(root, ".work", "cache", "pats-"+key+".txt")
	if b, err := os.ReadFile(cache); err == nil {
		lines := strings.Split(strings.TrimSuffix(string(b), "\n"), "\n")
		if len(lines) >= 4 {
			sp.NP, _ = strconv.Atoi(lines[0])
			sp.NPE, _ = strconv.Atoi(lines[1])
			sp.NPH, _ = strconv.Atoi(lines[2])
			for _, l := range lines[3:] {
				p, err := strconv.Unquote(l)
				if err != nil {
					sp.Pats = nil
					break
				}
				sp.Pats = append(sp.Pats, p)
			}
		}
	}
	if sp.Pats == nil {
		seen := map[string]struct{}{}
		for n := 1; n <= t.PN; n++ {
			space.BySize(n, func(x *space.Node) {
				p := x.String()
				if _, ok := seen[p]; ok {
					return
				}
				seen[p] = struct{}{}
				sp.Pats = append(sp.Pats, p)
			})
			if n == t.EmbedPN {
				sp.NPE = len(sp.Pats)
			}
			if n == t.HugePN {
				sp.NPH = len(sp.Pats)
			}
		}
		sp.NP = len(sp.Pats)
		if t.HugePN == 0 || t.HugePN >= t.PN {
			sp.NPH = sp.NP
		}
		if t.EmbedPN == 0 || t.EmbedPN >= t.PN {
			sp.NPE = sp.NP
		}
		if t.SK >= 0 {
			for _, p := range space.SeedPatternsLate(t.SK, t.LateSKDelta) {
				if _, ok := seen[p]; ok {
					continue
				}
				seen[p] = struct{}{}
				sp.Pats = append(sp.Pats, p)
			}
		}
		var sb strings.Builder
		fmt.Fprintf(&sb, "%d\n%d\n%d\n", sp.NP, sp.NPE, sp.NPH)
		for _, p := range sp.Pats {
			sb.WriteString(strconv.Quote(p))
			sb.WriteByte('\n')
		}
		os.MkdirAll(filepath.Dir(cache), 0o755)
		tmp := fmt.Sprintf("%s.%d", cache, os.Getpid())
		if os.WriteFile(tmp, []byte(sb.String()), 0o644) == nil {
			os.Rename(tmp, cache)
		}
	}
	mk := func(lascii, lutf8, lraw int) [][]byte {
		lists := [][][]byte{space.WordList(space.SigmaASCII, lascii)}
		if lutf8 > 0 {
			lists = append(lists, space.WordList(space.SigmaUTF8, lutf8))
		}
		if lraw > 0 {
			lists = append(lists, space.WordList(space.SigmaRaw, lraw))
		}
		return space.Union(lists...)
	}
	sp.HPE = mk(t.LASCII, t.LUTF8, t.LRaw)
	sp.HP = sp.HPE
	if t.LBig > 0 {
		u8, raw := t.LUTF8, t.LRaw
		if t.LUTF8Big > 0 {
			u8 = t.LUTF8Big
		}
		if t.LRawBig > 0 {
			raw = t.LRawBig
		}
		sp.HP = mk(t.LBig, u8, raw)
	}
	if sp.NPH < sp.NP {
		sp.HH = mk(t.LHuge, 0, 0)
	}
	if t.EmbedW >= 0 {
		words := space.WordList(append(append([]string{}, space.SigmaUTF8...), "\xff"), t.EmbedW)
		sp.HPE = space.Union(sp.HPE, space.Embed(words, sp.pads(), space.EmbedI, embedJ1))
	}
	return sp
}

// Haystacks returns the haystack list of unit u.
func (sp *Space) Haystacks(u int) [][]byte {
	if u < sp.NPE {
		return sp.HPE
	}
	if u < sp.NPH {
		return sp.HP
	}
	if u < sp.NP {
		return sp.HH
	}
	p := sp.Pats[u]
	emb := sp.T.SeedEmbW >= 0 && (sp.T.SeedEmbFirst == 0 || u-sp.NP < sp.T.SeedEmbFirst) && !heavy(p)
	tn := sp.T.TokN
	if emb && sp.T.SeedEmbTokN > 0 {
		tn = sp.T.SeedEmbTokN
	}
	toks := space.TokensFor(p, tn)
	words := space.WordList(toks, sp.T.TokL)
	if sp.T.SeedTokL > 0 && sp.T.SeedEmbFirst > 0 && u-sp.NP < sp.T.SeedEmbFirst && !heavy(p) {
		n := sp.T.TokN
		if sp.T.SeedTokN > 0 {
			n = sp.T.SeedTokN
		}
		words = space.Union(words, space.WordList(space.TokensFor(p, n), sp.T.SeedTokL))
	}
	if emb {
		ew := space.WordList(toks, sp.T.SeedEmbW)
		words = space.Union(words, space.Embed(ew, sp.pads(), space.EmbedI, sp.seedJ()))
	}
	return words
}

func (sp *Space) pads() []byte {
	if sp.T.Pads != nil {
		return sp.T.Pads
	}
	return []byte{'a', ' '}
}

func (sp *Space) seedJ() []int {
	if sp.T.SeedJ != nil {
		return sp.T.SeedJ
	}
	return embedJ2
}

func (sp *Space) Bounds() map[string]any {
	return map[string]any{
		"pattern_ast_nodes_max": sp.T.PN, "seed_edit_distance": sp.T.SK, "third_session_seed_edit_distance": max(sp.T.SK-sp.T.LateSKDelta, 0), "patterns": len(sp.Pats), "patterns_P": sp.NP,
		"haystack_symbols_ascii": sp.T.LASCII, "haystack_symbols_ascii_large_patterns": sp.T.LBig, "haystack_symbols_utf8_large_patterns": sp.T.LUTF8Big, "haystack_symbols_raw_large_patterns": sp.T.LRawBig, "haystack_symbols_utf8": sp.T.LUTF8, "haystack_symbols_raw": sp.T.LRaw,
		"huge_pattern_nodes_from": sp.T.HugePN, "haystack_symbols_ascii_huge_patterns": sp.T.LHuge, "haystacks_per_huge_P_pattern": len(sp.HH), "haystacks_per_P_pattern": len(sp.HP), "haystacks_per_small_P_pattern": len(sp.HPE), "embedding_pattern_nodes_max": sp.T.EmbedPN, "seed_embedding_right_pads": sp.seedJ(), "embedding_word_len": sp.T.EmbedW, "seed_token_alphabet": sp.T.TokN,
		"seed_token_len": sp.T.TokL, "strategy_seed_token_len": sp.T.SeedTokL, "strategy_seed_token_alphabet": sp.T.SeedTokN, "seed_embedding_word_len": sp.T.SeedEmbW, "seed_embeddings_first_n_seed_patterns": sp.T.SeedEmbFirst, "seed_embedding_token_alphabet": sp.T.SeedEmbTokN, "modes": sp.T.Modes,
	}
}

// PerHay is the per-(pattern, haystack) body of a sweep property; it returns whether the case is non-trivial.
type PerHay func(cx *Ctx, h []byte, hi int) bool

// SweepPlan builds the plan of a sweep property.
func SweepPlan(sp *Space, level, rule string, needEng, needRef bool, body PerHay, perPattern func(cx *Ctx)) *harness.Plan {
	modes := sp.T.Modes
	if len(modes) == 0 {
		modes = []string{"first"}
	}
	run := func(w *harness.W, u int) {
		p := sp.Pats[u]
		hs := sp.Haystacks(u)
		for _, mode := range modes {
			cx, ok := NewCtx(w, p, mode, needEng, needRef)
			if !ok {
				w.C["patterns_skipped_std_rejects_or_compile_failed"]++
				continue
			}
			w.C["programs"]++
			w.C["strategy_"+cx.Strategy]++
			if perPattern != nil {
				perPattern(cx)
			}
			nt := int64(0)
			e0 := w.C["evaluations"]
			for hi, h := range hs {
				if body(cx, h, hi) {
					nt++
				}
				cx.Flush(h)
			}
			w.C["states"] += int64(len(hs))
			w.C["transitions"] += w.C["evaluations"] - e0
			w.C["traces_validated_against_impl"] += int64(len(hs))
			w.C["distinct_nontrivial"] += nt
			if u%997 == 0 || u == len(sp.Pats)-1 {
				w.Sample(map[string]any{"pattern": p, "mode": mode, "strategy": cx.Strategy, "haystacks": len(hs),
					"first_haystacks": []string{strconv.Quote(string(hs[min(1, len(hs)-1)])), strconv.Quote(string(hs[len(hs)/2])), strconv.Quote(string(hs[len(hs)-1]))},
					"nontrivial":      nt})
			}
		}
	}
	return &harness.Plan{
		Units: len(sp.Pats), Chunk: 24, Run: run,
		Describe: func(u int) string { return fmt.Sprintf("pattern %q", sp.Pats[u]) },
		Rule:     rule, Level: level, Bounds: sp.Bounds(), Budget: sp.T.Budget,
	}
}

// heavy reports whether the pattern contains a very large character class (\pL, \w under (?i) with Unicode, …):
// its automaton has thousands of states and every search is ~100x slower, so such patterns are explored on the
// token words only, without the long embeddings.
func heavy(p string) bool {
	re, err := syntax.Parse(p, syntax.Perl)
	if err != nil {
		return false
	}
	n := 0
	var walk func(*syntax.Regexp)
	walk = func(r *syntax.Regexp) {
		if r.Op == syntax.OpCharClass {
			n += len(r.Rune) / 2
		}
		for _, s := range r.Sub {
			walk(s)
		}
	}
	walk(re)
	return n > 100
}
