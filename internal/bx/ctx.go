// Package bx is the program × input sweep explorer (DESIGN §3: C01–C04, C08–C12): for every pattern of the
// bounded pattern space and every haystack of the bounded haystack space it runs the real coregex API and
// compares with package regexp (or with a relation between APIs), one property at a time.
package bx

import (
	"fmt"
	"regexp"
	"regexp/syntax"
	"strconv"
	"strings"

	"github.com/coregx/coregex"
	"github.com/coregx/coregex/meta"

	"verif/internal/harness"
	"verif/internal/refre"
)

// Ctx is one compiled program in one match mode.
type Ctx struct {
	Pat      string
	Mode     string // "first", "longest", "posix"
	Std      *regexp.Regexp
	Re       *coregex.Regex
	Eng      *meta.Engine
	Ref      *refre.Prog
	NSub     int
	Strategy string
	W        *harness.W
	// failing evaluations of the (pattern, haystack) case in flight; Flush turns them into ONE failing case
	pendOp, pendWant, pendGot []string
}

// Flush reports the pending failing evaluations of haystack h as one case: its identity is the haystack plus the
// complete list of (operation, arguments, wrong result) observed on it, so a change in which operations fail or
// in any wrong answer is a different case.
func (cx *Ctx) Flush(h []byte) {
	if len(cx.pendOp) == 0 {
		return
	}
	c := &harness.Case{Op: cx.pendOp[0], Mode: cx.Mode, Pattern: cx.Pat, Hay: strconv.Quote(string(h)),
		Want: strings.Join(cx.pendWant, "; "), Got: strings.Join(cx.pendGot, "; "), Cluster: cx.Strategy}
	if len(cx.pendOp) > 1 {
		c.Op = fmt.Sprintf("%s(+%d more)", cx.pendOp[0], len(cx.pendOp)-1)
	}
	cx.W.C["failing_evaluations"] += int64(len(cx.pendOp))
	cx.pendOp, cx.pendWant, cx.pendGot = cx.pendOp[:0], cx.pendWant[:0], cx.pendGot[:0]
	cx.W.Fail(c)
}

// NewCtx compiles pattern p in the given mode with std and coregex. ok=false when std rejects the pattern
// (the unit is skipped) — a coregex compile error for a pattern std accepts is reported as a failure.
func NewCtx(w *harness.W, p, mode string, needEng, needRef bool) (cx *Ctx, ok bool) {
	var std *regexp.Regexp
	var err error
	if mode == "posix" {
		std, err = regexp.CompilePOSIX(p)
	} else {
		std, err = regexp.Compile(p)
	}
	if err != nil {
		return nil, false
	}
	cx = &Ctx{Pat: p, Mode: mode, Std: std, W: w, NSub: std.NumSubexp(), Strategy: "?"}
	if mode == "longest" {
		std.Longest()
	}
	defer func() {
		if r := recover(); r != nil {
			cx.failRaw("Compile", nil, "", "compiles", "panic: "+firstLine(fmt.Sprint(r)))
			cx, ok = nil, false
		}
	}()
	var re *coregex.Regex
	if mode == "posix" {
		re, err = coregex.CompilePOSIX(p)
	} else {
		re, err = coregex.Compile(p)
	}
	if err != nil {
		cx.failRaw("Compile", nil, "", "compiles", "error: "+err.Error())
		return nil, false
	}
	if mode == "longest" {
		re.Longest()
	}
	cx.Re = re
	if needEng {
		var eng *meta.Engine
		if mode == "posix" {
			// the engine twin of CompilePOSIX: POSIX syntax (^ and $ are line anchors there), not Perl syntax
			parsed, perr := syntax.Parse(p, syntax.POSIX)
			if perr != nil {
				panic("std accepted a POSIX pattern that regexp/syntax rejects: " + p)
			}
			eng, err = meta.CompileRegexp(parsed, meta.DefaultConfig())
		} else {
			eng, err = meta.Compile(p)
		}
		if err != nil {
			cx.failRaw("meta.Compile", nil, "", "compiles", "error: "+err.Error())
			return nil, false
		}
		if mode != "first" {
			eng.SetLongest(true)
		}
		cx.Eng = eng
		cx.Strategy = eng.Strategy().String()
	}
	if needRef {
		fl := syntax.Perl
		if mode == "posix" {
			fl = syntax.POSIX
		}
		ref, err := refre.Compile(p, fl)
		if err != nil {
			panic("refre cannot compile a pattern std accepts: " + p + ": " + err.Error())
		}
		cx.Ref = ref
	}
	return cx, true
}

func firstLine(s string) string {
	if i := strings.IndexByte(s, '\n'); i >= 0 {
		s = s[:i]
	}
	if len(s) > 160 {
		s = s[:160]
	}
	return s
}

func (cx *Ctx) failRaw(op string, h []byte, args, want, got string) {
	if h == nil {
		// per-pattern failure (compile): reported directly
		cx.W.Fail(&harness.Case{Op: op, Mode: cx.Mode, Pattern: cx.Pat, Hay: `""`, Args: args, Want: want, Got: got, Cluster: cx.Strategy})
		return
	}
	name := op
	if args != "" {
		name = op + "[" + args + "]"
	}
	cx.pendOp = append(cx.pendOp, name)
	cx.pendWant = append(cx.pendWant, name+"="+want)
	cx.pendGot = append(cx.pendGot, name+"="+got)
}

// Fail reports a mismatch with values rendered by Show.
func (cx *Ctx) Fail(op string, h []byte, args string, want, got any) {
	cx.failRaw(op, h, args, Show(want), Show(got))
}

// guard runs f and converts a panic of the library into a failing case of op.
func (cx *Ctx) guard(op string, h []byte, args string, f func()) {
	defer func() {
		if r := recover(); r != nil {
			cx.failRaw(op, h, args, "no panic", "panic: "+firstLine(fmt.Sprint(r)))
		}
	}()
	f()
}

// Show renders a result for reports and for the case identity; nil and empty are distinguished.
func Show(v any) string {
	switch x := v.(type) {
	case nil:
		return "nil"
	case string:
		return strconv.Quote(x)
	case bool:
		return strconv.FormatBool(x)
	case int:
		return strconv.Itoa(x)
	case []int:
		if x == nil {
			return "nil"
		}
		return fmt.Sprint(x)
	case [][]int:
		if x == nil {
			return "nil"
		}
		var sb strings.Builder
		sb.WriteByte('[')
		for i, e := range x {
			if i > 0 {
				sb.WriteByte(' ')
			}
			sb.WriteString(Show(e))
		}
		sb.WriteByte(']')
		return sb.String()
	case [][2]int:
		if x == nil {
			return "nil"
		}
		return fmt.Sprint(x)
	case []byte:
		if x == nil {
			return "nil"
		}
		return strconv.Quote(string(x))
	case [][]byte:
		if x == nil {
			return "nil"
		}
		var sb strings.Builder
		sb.WriteByte('[')
		for i, e := range x {
			if i > 0 {
				sb.WriteByte(' ')
			}
			sb.WriteString(Show(e))
		}
		sb.WriteByte(']')
		return sb.String()
	case [][][]byte:
		if x == nil {
			return "nil"
		}
		var sb strings.Builder
		sb.WriteByte('[')
		for i, e := range x {
			if i > 0 {
				sb.WriteByte(' ')
			}
			sb.WriteString(Show(e))
		}
		sb.WriteByte(']')
		return sb.String()
	case []string:
		if x == nil {
			return "nil"
		}
		return fmt.Sprintf("%q", x)
	case [][]string:
		if x == nil {
			return "nil"
		}
		return fmt.Sprintf("%q", x)
	}
	return fmt.Sprint(v)
}

func eqInts(a, b []int) bool {
	if (a == nil) != (b == nil) || len(a) != len(b) {
		return false
	}
	for i := range a {
		if a[i] != b[i] {
			return false
		}
	}
	return true
}

func eqIntss(a, b [][]int) bool {
	if (a == nil) != (b == nil) || len(a) != len(b) {
		return false
	}
	for i := range a {
		if !eqInts(a[i], b[i]) {
			return false
		}
	}
	return true
}

func eqBytes(a, b []byte) bool {
	return (a == nil) == (b == nil) && string(a) == string(b)
}

func eqBytess(a, b [][]byte) bool {
	if (a == nil) != (b == nil) || len(a) != len(b) {
		return false
	}
	for i := range a {
		if !eqBytes(a[i], b[i]) {
			return false
		}
	}
	return true
}

func eqBytesss(a, b [][][]byte) bool {
	if (a == nil) != (b == nil) || len(a) != len(b) {
		return false
	}
	for i := range a {
		if !eqBytess(a[i], b[i]) {
			return false
		}
	}
	return true
}

func eqStrings(a, b []string) bool {
	if (a == nil) != (b == nil) || len(a) != len(b) {
		return false
	}
	for i := range a {
		if a[i] != b[i] {
			return false
		}
	}
	return true
}

func eqStringss(a, b [][]string) bool {
	if (a == nil) != (b == nil) || len(a) != len(b) {
		return false
	}
	for i := range a {
		if !eqStrings(a[i], b[i]) {
			return false
		}
	}
	return true
}

// HayHash is a cheap content hash used to sub-sample expensive forms as a function of the haystack alone, so
// that a replay of a case runs exactly the evaluations the sweep ran.
func HayHash(h []byte) uint32 {
	x := uint32(2166136261)
	for _, b := range h {
		x = (x ^ uint32(b)) * 16777619
	}
	return x ^ x>>15
}
