// Package sx is the schedule explorer of DESIGN §3 C06: stateless, preemption-bounded depth-first exploration of
// all interleavings of a few logical threads calling one shared Regex, on the real code built with the sync /
// sync/atomic shims of /verif/overlay (injected with `go build -overlay`). This file holds what the coordinator and
// the instrumented worker share: the unit space. The code that actually runs schedules lives in cmd/sx, which is
// only ever built with the overlay.
package sx

import (
	"fmt"
	"os"
	"strconv"
	"strings"
	"time"

	"verif/internal/harness"
	"verif/internal/space"
)

// Call is one API call of a logical thread.
type Call struct {
	API string
	Hay string
}

// Unit is one harness: a program and the calls of each thread.
type Unit struct {
	Pattern string
	Longest bool
	Threads [][]Call
}

func (u Unit) String() string {
	s := fmt.Sprintf("%q", u.Pattern)
	if u.Longest {
		s += " longest"
	}
	for i, t := range u.Threads {
		s += fmt.Sprintf(" | T%d:", i)
		for _, c := range t {
			s += fmt.Sprintf(" %s(%q)", c.API, c.Hay)
		}
	}
	return s
}

// Programs: one per strategy seed, plus variants.
var Programs = []string{
	`a*b*c*`, `\bfoo\b`, `ab|cd`, `a.*b`, `(a+)(b+)?`, `.`, `([a-z])+[0-9]`, `^(a)(b)?`, `[a-z]+`, `[a-z]+[0-9]+`,
	`^(\d+|foo|xbar)`, `^/.*\.php$`, `ab$`, `.*\.txt`, `.+\.txt`, `.*\.(txt|log|md)`, `\w+@\w+`, `(?m)^.*\.php`, `foo|bar|baz`, `\d+\.\d+`,
	`(?i)foobar|bazqux`, `x[α-ω]+`,
}

// generated literal alternations: 33 literals select Fat Teddy (its scratch comes from a package-level pool), 70
// select Aho-Corasick; and the four-part class sequence handled by the composite sequence DFA
var lits33, lits70 = space.GenLiterals(33), space.AhoLiterals(70)

func init() {
	Programs = append(Programs, strings.Join(lits33, "|"), strings.Join(lits70, "|"), `[a-z]+[0-9]+[a-z]+[A-Z]+`)
}

// LargePrograms are explored with one haystack beyond the bounded backtracker's input limit (32 Mi / NFA states
// entries), which switches the engine to its large-input fallback paths. A haystack written "@repeat:N:text" stands
// for text repeated N times (kept symbolic so that reports stay small).
var LargePrograms = []string{`\p{Greek}+`}

// BigHay is the symbolic large haystack (≈ 330 KB; the backtracker limit of `\\p{Greek}+` is ≈ 207 KB).
const BigHay = "@repeat:30000:αβγ δε "

// Expand resolves the symbolic haystack notation.
func Expand(h string) string {
	if !strings.HasPrefix(h, "@repeat:") {
		return h
	}
	rest := h[len("@repeat:"):]
	i := strings.IndexByte(rest, ':')
	n, _ := strconv.Atoi(rest[:i])
	return strings.Repeat(rest[i+1:], n)
}

// APIs explored.
var APIs = []string{"Match", "FindIndex", "FindSubmatchIndex", "FindAllIndex", "Count", "ReplaceAllString", "Split", "AllIndex"}

// HaysFor returns the three haystacks of a program: matching, different, empty.
func HaysFor(pattern string) []string {
	m := map[string][2]string{
		`a*b*c*`: {"aabbcc", "xyz"}, `\bfoo\b`: {"a foo b", "afoob foo"}, `ab|cd`: {"xxabxx", "cdcd"}, `a.*b`: {"xaxxbx", "ab\nab"},
		`(a+)(b+)?`: {"aaabb", "xa"}, `.`: {"x", "\n\ny"}, `([a-z])+[0-9]`: {"abc1", "zz9 a"}, `^(a)(b)?`: {"ab", "ba"},
		`[a-z]+`: {"hello world", "123abc"}, `[a-z]+[0-9]+`: {"abc123", "x1 y22"}, `^(\d+|foo|xbar)`: {"123x", "foo"},
		`^/.*\.php$`: {"/index.php", "/a/b.php"}, `ab$`: {"xxab", "abab"}, `.*\.txt`: {"a.txt", "x\nb.txt.txt"}, `.+\.txt`: {"a.txt", "ab.txt c.txt"},
		`.*\.(txt|log|md)`: {"a.log", "x.md y.txt"}, `\w+@\w+`: {"me@host", "a@b c@d"}, `(?m)^.*\.php`: {"/x.php", "a\n/b.php"},
		`foo|bar|baz`: {"xxbarxx", "bazfoo"}, `\d+\.\d+`: {"v1.25", "3.14 2.71"}, `(?i)foobar|bazqux`: {"FooBar", "xBAZQUXx"}, `x[α-ω]+`: {"xαβγ", "xx ω xω"},
	}
	m[strings.Join(lits33, "|")] = [2]string{lits33[5] + "xx" + lits33[20] + " padding beyond sixteen bytes " + lits33[32], "zz" + lits33[32]}
	m[strings.Join(lits70, "|")] = [2]string{lits70[5] + "xx" + lits70[69] + " padding beyond sixteen bytes " + lits70[40], "zz" + lits70[64]}
	m[`[a-z]+[0-9]+[a-z]+[A-Z]+`] = [2]string{"ab12cdEF", "a1a1aB x9yZ"}
	h, ok := m[pattern]
	if !ok {
		panic("sx: no haystacks for program " + pattern)
	}
	return []string{h[0], h[1], ""}
}

// Units enumerates the harnesses of a tier. Quick, for each of the 22 programs: every API against itself on the same and
// on two different haystacks (16), every unordered pair of distinct APIs on the same haystack (28), three
// 2-calls-per-thread harnesses with the same call pair on both threads in opposite haystack order, two 3-thread
// harnesses and a longest-mode one. Thorough: every unordered API pair (with repetition) on same / different / empty
// haystacks, all nine 2x2 combinations, the 3-thread and longest harnesses and a 3 threads x 2 calls harness for every
// program — a superset of quick.
func Units(thorough bool) []Unit {
	var out []Unit
	for _, p := range Programs {
		hs := HaysFor(p)
		if thorough {
			for i, a := range APIs {
				for _, b := range APIs[i:] {
					out = append(out, Unit{p, false, [][]Call{{{a, hs[0]}}, {{b, hs[0]}}}})
					out = append(out, Unit{p, false, [][]Call{{{a, hs[0]}}, {{b, hs[1]}}}})
					out = append(out, Unit{p, false, [][]Call{{{a, hs[2]}}, {{b, hs[0]}}}})
					out = append(out, Unit{p, false, [][]Call{{{a, hs[1]}}, {{b, hs[1]}}}})
				}
			}
		} else {
			for i, a := range APIs {
				out = append(out, Unit{p, false, [][]Call{{{a, hs[0]}}, {{a, hs[0]}}}})
				out = append(out, Unit{p, false, [][]Call{{{a, hs[0]}}, {{a, hs[1]}}}})
				for _, b := range APIs[i+1:] {
					out = append(out, Unit{p, false, [][]Call{{{a, hs[0]}}, {{b, hs[0]}}}})
				}
			}
		}
		// 2 threads × 2 calls: state hand-back and re-acquisition inside one thread
		two := [][2]string{{"Match", "FindIndex"}, {"FindSubmatchIndex", "Count"}, {"FindAllIndex", "ReplaceAllString"}}
		for _, x := range two {
			for _, y := range two {
				if thorough || x == y {
					out = append(out, Unit{p, false, [][]Call{{{x[0], hs[0]}, {x[1], hs[1]}}, {{y[0], hs[1]}, {y[1], hs[0]}}}})
				}
			}
		}
		{
			// 3 threads × 1 call
			out = append(out, Unit{p, false, [][]Call{{{"Match", hs[0]}}, {{"FindIndex", hs[1]}}, {{"FindSubmatchIndex", hs[0]}}}})
			out = append(out, Unit{p, false, [][]Call{{{"FindAllIndex", hs[0]}}, {{"Count", hs[0]}}, {{"ReplaceAllString", hs[1]}}}})
			// longest mode
			out = append(out, Unit{p, true, [][]Call{{{"FindIndex", hs[0]}}, {{"FindSubmatchIndex", hs[1]}}}})
		}
		if thorough {
			// 3 threads × 2 calls: two hand-backs compete for the one-slot cache while a third thread acquires
			out = append(out, Unit{p, false, [][]Call{{{"Match", hs[0]}, {"FindIndex", hs[1]}}, {{"FindIndex", hs[1]}, {"Match", hs[0]}}, {{"FindSubmatchIndex", hs[0]}, {"Count", hs[1]}}}})
		}
	}
	// large-input fallback: one enumeration over a haystack beyond the backtracker limit, then concurrent small calls
	for _, p := range LargePrograms {
		small := "αβ γ"
		out = append(out, Unit{p, false, [][]Call{{{"FindAllIndex", BigHay}, {"Match", small}}, {{"FindIndex", small}}}})
		out = append(out, Unit{p, false, [][]Call{{{"Count", BigHay}, {"FindAllIndex", small}}, {{"FindAllIndex", small}}}})
		if thorough {
			out = append(out, Unit{p, false, [][]Call{{{"FindAllIndex", BigHay}}, {{"Count", BigHay}}}})
			out = append(out, Unit{p, false, [][]Call{{{"Count", BigHay}, {"Match", small}}, {{"FindIndex", small}}, {{"FindSubmatchIndex", small}}}})
		}
	}
	return out
}

// RunUnit is installed by cmd/sx (the instrumented build); it is nil in the coordinator.
var RunUnit func(w *harness.W, u Unit, bound int, capExec int)

// Plan builds the C06 plan (shared by coordinator and worker).
func Plan(tier string) *harness.Plan {
	thorough := tier == "thorough"
	units := Units(thorough)
	// an execution costs ~50 µs (interleavings) / ~1 ms (-race build) since the hand-off became a goroutine switch;
	// executions over the large haystack cost ~50 ms / ~1 s
	bound, capExec := 2, 20000
	raceBound, raceCap := 2, 400 // quick: every schedule with <= 1 deviation, then those with 2 up to the cap
	bigCap, bigRaceCap := 150, 24
	budget := 150 * time.Second
	if thorough {
		bound, capExec, budget = 3, 300000, 25*time.Minute
		raceBound, raceCap = 2, 20000
		bigCap, bigRaceCap = 600, 60
	}
	if v, err := strconv.Atoi(os.Getenv("VF_SX_CAP")); err == nil && v > 0 {
		capExec = v // maintenance: measuring how many schedules a bound needs
	}
	return &harness.Plan{
		Units: len(units), Chunk: 2,
		Run: func(w *harness.W, u int) {
			if RunUnit == nil {
				panic("sx: not an instrumented build")
			}
			b, c := bound, capExec
			big := strings.Contains(units[u].String(), "@repeat:")
			if big {
				c = bigCap
			}
			if w.Pass == "race-detector" {
				b, c = raceBound, raceCap
				if big {
					c = bigRaceCap
				}
			}
			RunUnit(w, units[u], b, c)
		},
		Describe: func(u int) string { return units[u].String() },
		Replay: func(w *harness.W, c *harness.Case) {
			for _, u := range units {
				if u.String() == c.Pattern {
					RunUnit(w, u, bound, capExec)
					return
				}
			}
		},
		Rule: "Stateless model checking of the real code: the repository is rebuilt with sync.Pool and atomic.Pointer (Swap/CompareAndSwap/Load/Store) replaced (go build -overlay, generated from the current tree) by shims that make every such operation a scheduling point followed by the real atomic operation. For every program (one per strategy seed plus Fat Teddy, Aho-Corasick and composite-sequence programs, 25) and every harness (quick: every API against itself on the same and on two different haystacks, every pair of distinct APIs on one haystack, 2 threads × 2 calls with the same call pair in opposite haystack order, 3 threads × 1 call and longest mode; thorough: every API pair on same / different / empty haystacks, all 2 × 2 combinations, 3-thread, longest and 3 threads × 2 calls harnesses) ALL interleavings with at most c preemptions (c iterated 0,1,2 and, thorough, 3; level c is completed before level c+1 is started and no schedule is executed twice; an explored 'the collector emptied the pool' environment choice also costs one) are enumerated depth-first; every execution starts from a freshly compiled value. Oracle A on every execution: no object obtained from a pool or atomic slot is obtained by a second thread while held; every call's result equals its result when run alone on a fresh value. Oracle B (second pass, -race build, same exhaustive schedules): the race detector's happens-before analysis on each explored execution — thread hand-off goes through a plain variable touched only by //go:norace code and runtime.Gosched, neither of which the detector models, so it sees only the program's own synchronisation (validated at the start of every race-build worker: unsynchronised increments under the scheduler are reported, a publication through the atomic shim is not). The race pass covers every schedule with at most 1 deviation and those with 2 up to its execution cap (thorough: all with at most 2). A harness whose execution cap was hit is complete only up to the bound counted under harnesses_complete_to_bound_<c>; the run is then reported exhaustive:false. states = scheduling points visited; transitions = scheduling decisions taken; evaluations = complete executions (schedules); non-trivial = executions with at least one preemption or environment deviation.",
		Extra: func(total map[string]int64) map[string]any {
			// a harness whose execution cap was hit is exhaustive only up to the deviation bound it completed: the run as a
			// whole is then NOT called exhaustive for the nominal bound; what was fully covered is reported per bound
			out := map[string]any{}
			if total["harnesses_execution_cap_hit"] > 0 {
				out["exhaustive"] = false
				out["exhaustive_note"] = "execution cap hit in some harnesses: every harness is fully explored up to the deviation bound counted under harnesses_complete_to_bound_<c> (per pass); schedules_left_unexplored_at_cap counts the queued schedules of the next level that were not executed"
			}
			return out
		},
		Level: "model_checking", Budget: budget, UnitTimeout: 300 * time.Second,
		Bounds: map[string]any{"threads_max": 3, "calls_per_thread_max": 2, "preemption_bound": bound, "executions_cap_per_harness": capExec, "race_pass_preemption_bound": raceBound, "race_pass_executions_cap_per_harness": raceCap, "large_haystack_executions_cap": bigCap, "large_haystack_race_pass_executions_cap": bigRaceCap, "programs": len(Programs), "harnesses": len(units)},
		Assume: []string{"sequentially consistent interleavings at synchronisation operations; weak-memory reorderings are not modelled (L3)", "the race detector's happens-before analysis and the invisibility of the //go:norace turn variable and runtime.Gosched to it (self-checked in every race-build worker)", "scheduling points are exactly the sync.Pool / atomic operations of the library (unsynchronised accesses are Oracle B's business)"},
	}
}
