// Package sx is the schedule explorer of DESIGN §3 C06: stateless, preemption-bounded depth-first exploration of
// all interleavings of a few logical threads calling one shared Regex, on the real code built with the sync /
// sync/atomic shims of /verif/overlay (injected with `go build -overlay`). This file holds what the coordinator and
// the instrumented worker share: the unit space. The code that actually runs schedules lives in cmd/sx, which is
// only ever built with the overlay.
package sx

import (
	"fmt"
	"strconv"
	"strings"
	"time"

	"verif/internal/harness"
)

// Call is one API call of a logical thread.
type Call struct {
	API string
	Hay string
}

// Unit is one harness: a program and the calls of each thread.
type Unit struct {
	Pattern string
	Longest bool
	Threads [][]Call
}

func (u Unit) String() string {
	s := fmt.Sprintf("%q", u.Pattern)
	if u.Longest {
		s += " longest"
	}
	for i, t := range u.Threads {
		s += fmt.Sprintf(" | T%d:", i)
		for _, c := range t {
			s += fmt.Sprintf(" %s(%q)", c.API, c.Hay)
		}
	}
	return s
}

// Programs: one per strategy seed, plus variants.
var Programs = []string{
	`a*b*c*`, `\bfoo\b`, `ab|cd`, `a.*b`, `(a+)(b+)?`, `.`, `([a-z])+[0-9]`, `^(a)(b)?`, `[a-z]+`, `[a-z]+[0-9]+`,
	`^(\d+|foo|xbar)`, `^/.*\.php$`, `ab$`, `.*\.txt`, `.+\.txt`, `.*\.(txt|log|md)`, `\w+@\w+`, `(?m)^.*\.php`, `foo|bar|baz`, `\d+\.\d+`,
	`(?i)foobar|bazqux`, `x[α-ω]+`,
}

// quickSkip: programs whose strategy is already represented by another program of the quick tier.
var quickSkip = map[string]bool{`\bfoo\b`: true, `a.*b`: true, `.*\.txt`: true, `(?i)foobar|bazqux`: true}

// LargePrograms are explored with one haystack beyond the bounded backtracker's input limit (32 Mi / NFA states
// entries), which switches the engine to its large-input fallback paths. A haystack written "@repeat:N:text" stands
// for text repeated N times (kept symbolic so that reports stay small).
var LargePrograms = []string{`\p{Greek}+`}

// BigHay is the symbolic large haystack (≈ 330 KB; the backtracker limit of `\\p{Greek}+` is ≈ 207 KB).
const BigHay = "@repeat:30000:αβγ δε "

// Expand resolves the symbolic haystack notation.
func Expand(h string) string {
	if !strings.HasPrefix(h, "@repeat:") {
		return h
	}
	rest := h[len("@repeat:"):]
	i := strings.IndexByte(rest, ':')
	n, _ := strconv.Atoi(rest[:i])
	return strings.Repeat(rest[i+1:], n)
}

// APIs explored.
var APIs = []string{"Match", "FindIndex", "FindSubmatchIndex", "FindAllIndex", "Count", "ReplaceAllString", "Split", "AllIndex"}

// HaysFor returns the three haystacks of a program: matching, different, empty.
func HaysFor(pattern string) []string {
	m := map[string][2]string{
		`a*b*c*`: {"aabbcc", "xyz"}, `\bfoo\b`: {"a foo b", "afoob foo"}, `ab|cd`: {"xxabxx", "cdcd"}, `a.*b`: {"xaxxbx", "ab\nab"},
		`(a+)(b+)?`: {"aaabb", "xa"}, `.`: {"x", "\n\ny"}, `([a-z])+[0-9]`: {"abc1", "zz9 a"}, `^(a)(b)?`: {"ab", "ba"},
		`[a-z]+`: {"hello world", "123abc"}, `[a-z]+[0-9]+`: {"abc123", "x1 y22"}, `^(\d+|foo|xbar)`: {"123x", "foo"},
		`^/.*\.php$`: {"/index.php", "/a/b.php"}, `ab$`: {"xxab", "abab"}, `.*\.txt`: {"a.txt", "x\nb.txt.txt"}, `.+\.txt`: {"a.txt", "ab.txt c.txt"},
		`.*\.(txt|log|md)`: {"a.log", "x.md y.txt"}, `\w+@\w+`: {"me@host", "a@b c@d"}, `(?m)^.*\.php`: {"/x.php", "a\n/b.php"},
		`foo|bar|baz`: {"xxbarxx", "bazfoo"}, `\d+\.\d+`: {"v1.25", "3.14 2.71"}, `(?i)foobar|bazqux`: {"FooBar", "xBAZQUXx"}, `x[α-ω]+`: {"xαβγ", "xx ω xω"},
	}
	h := m[pattern]
	return []string{h[0], h[1], ""}
}

// Units enumerates the harnesses of a tier. Quick, for 18 of the 22 programs: every API against itself on the same and
// on two different haystacks (16), three mixed pairs on the same haystack, three 2-calls-per-thread harnesses with
// the same call pair on both threads in opposite haystack order, and for every fourth program two 3-thread harnesses
// and a longest-mode one. Thorough: every unordered API pair (with repetition) on same / different / empty haystacks,
// all nine 2x2 combinations, and the 3-thread and longest harnesses for every program — a superset of quick.
func Units(thorough bool) []Unit {
	var out []Unit
	for pi, p := range Programs {
		hs := HaysFor(p)
		if thorough {
			for i, a := range APIs {
				for _, b := range APIs[i:] {
					out = append(out, Unit{p, false, [][]Call{{{a, hs[0]}}, {{b, hs[0]}}}})
					out = append(out, Unit{p, false, [][]Call{{{a, hs[0]}}, {{b, hs[1]}}}})
					out = append(out, Unit{p, false, [][]Call{{{a, hs[2]}}, {{b, hs[0]}}}})
					out = append(out, Unit{p, false, [][]Call{{{a, hs[1]}}, {{b, hs[1]}}}})
				}
			}
		} else {
			if quickSkip[p] {
				continue // a second program of an already represented strategy: thorough tier only
			}
			for _, a := range APIs {
				out = append(out, Unit{p, false, [][]Call{{{a, hs[0]}}, {{a, hs[0]}}}})
				out = append(out, Unit{p, false, [][]Call{{{a, hs[0]}}, {{a, hs[1]}}}})
			}
			for _, ab := range [][2]string{{"Match", "FindIndex"}, {"FindSubmatchIndex", "FindAllIndex"}, {"Match", "FindAllIndex"}} {
				out = append(out, Unit{p, false, [][]Call{{{ab[0], hs[0]}}, {{ab[1], hs[0]}}}})
			}
		}
		// 2 threads × 2 calls: state hand-back and re-acquisition inside one thread
		two := [][2]string{{"Match", "FindIndex"}, {"FindSubmatchIndex", "Count"}, {"FindAllIndex", "ReplaceAllString"}}
		for _, x := range two {
			for _, y := range two {
				if thorough || x == y {
					out = append(out, Unit{p, false, [][]Call{{{x[0], hs[0]}, {x[1], hs[1]}}, {{y[0], hs[1]}, {y[1], hs[0]}}}})
				}
			}
		}
		if thorough || pi%4 == 0 {
			// 3 threads × 1 call
			out = append(out, Unit{p, false, [][]Call{{{"Match", hs[0]}}, {{"FindIndex", hs[1]}}, {{"FindSubmatchIndex", hs[0]}}}})
			out = append(out, Unit{p, false, [][]Call{{{"FindAllIndex", hs[0]}}, {{"Count", hs[0]}}, {{"ReplaceAllString", hs[1]}}}})
			// longest mode
			out = append(out, Unit{p, true, [][]Call{{{"FindIndex", hs[0]}}, {{"FindSubmatchIndex", hs[1]}}}})
		}
	}
	// large-input fallback: one enumeration over a haystack beyond the backtracker limit, then concurrent small calls
	for _, p := range LargePrograms {
		small := "αβ γ"
		out = append(out, Unit{p, false, [][]Call{{{"FindAllIndex", BigHay}, {"Match", small}}, {{"FindIndex", small}}}})
		out = append(out, Unit{p, false, [][]Call{{{"Count", BigHay}, {"FindAllIndex", small}}, {{"FindAllIndex", small}}}})
		if thorough {
			out = append(out, Unit{p, false, [][]Call{{{"FindAllIndex", BigHay}}, {{"Count", BigHay}}}})
			out = append(out, Unit{p, false, [][]Call{{{"Count", BigHay}, {"Match", small}}, {{"FindIndex", small}}, {{"FindSubmatchIndex", small}}}})
		}
	}
	return out
}

// RunUnit is installed by cmd/sx (the instrumented build); it is nil in the coordinator.
var RunUnit func(w *harness.W, u Unit, bound int, capExec int)

// Plan builds the C06 plan (shared by coordinator and worker).
func Plan(tier string) *harness.Plan {
	thorough := tier == "thorough"
	units := Units(thorough)
	bound, capExec := 2, 600
	budget := 150 * time.Second
	if thorough {
		bound, capExec, budget = 2, 200000, 25*time.Minute
	}
	return &harness.Plan{
		Units: len(units), Chunk: 2,
		Run: func(w *harness.W, u int) {
			if RunUnit == nil {
				panic("sx: not an instrumented build")
			}
			b, c := bound, capExec
			if w.Pass == "race-detector" && !thorough {
				b, c = 1, 150 // the -race build is ~10x slower: the quick tier runs it at preemption bound 1
			}
			if strings.Contains(units[u].String(), "@repeat:") {
				c = min(c, 150) // executions over a large haystack are ~100x more expensive
			}
			RunUnit(w, units[u], b, c)
		},
		Describe: func(u int) string { return units[u].String() },
		Replay: func(w *harness.W, c *harness.Case) {
			for _, u := range units {
				if u.String() == c.Pattern {
					RunUnit(w, u, bound, capExec)
					return
				}
			}
		},
		Rule:  "Stateless model checking of the real code: the repository is rebuilt with sync.Pool and atomic.Pointer (Swap/CompareAndSwap/Load/Store) replaced (go build -overlay, generated from the current tree) by shims that make every such operation a scheduling point followed by the real atomic operation. For every program (one per strategy seed) and every harness (quick, 18 programs: every API against itself on the same and on two different haystacks, three mixed API pairs on one haystack, 2 threads × 2 calls with the same call pair in opposite haystack order, and for every fourth program 3 threads × 1 call and longest mode; thorough: every API pair on same / different / empty haystacks, all 2 × 2 combinations, 3-thread and longest harnesses for every program) ALL interleavings with at most c preemptions (c iterated 0,1,2; an explored 'the collector emptied the pool' environment choice also costs one) are enumerated depth-first; every execution starts from a freshly compiled value. Oracle A on every execution: no object obtained from a pool or atomic slot is obtained by a second thread while held; every call's result equals its result when run alone on a fresh value. Oracle B (second pass, -race build, same exhaustive schedules): the race detector's happens-before analysis on each explored execution — thread hand-off uses raw pipe system calls invisible to the detector, so it sees only the program's own synchronisation. states = scheduling points visited; transitions = scheduling decisions taken; evaluations = complete executions (schedules); non-trivial = executions with at least one preemption or environment deviation.",
		Level: "model_checking", Budget: budget, UnitTimeout: 300 * time.Second,
		Bounds: map[string]any{"threads_max": 3, "calls_per_thread_max": 2, "preemption_bound": bound, "executions_cap_per_harness": capExec, "programs": len(Programs), "harnesses": len(units)},
		Assume: []string{"sequentially consistent interleavings at synchronisation operations; weak-memory reorderings are not modelled (L3)", "the race detector's happens-before analysis and the invisibility of raw pipe syscalls to it", "scheduling points are exactly the sync.Pool / atomic operations of the library (unsynchronised accesses are Oracle B's business)"},
	}
}
