package mx

import (
	"bytes"
	"fmt"
	"strconv"
	"strings"
	"time"
	"unsafe"

	"github.com/coregx/coregex"
	"github.com/coregx/coregex/meta"

	"verif/internal/guardmem"
	"verif/internal/harness"
	"verif/internal/space"
)

// C07: total, memory-safe, well-formed. Every candidate pattern string compiles or errors (no panic, no hang);
// every exported search / replace / split method on compiled patterns returns normally on haystacks placed flush
// against inaccessible pages (read-only cells), reads only the haystack, leaves it unchanged, and returns
// well-formed values.

var c07Syms = []string{"a", "b", ".", "*", "+", "?", "|", "(", ")", "[", "]", "^", "$", `\`, "{", "}", "1", ",", "-", ":"}
var c07Esc = []string{`\b`, `\B`, `\d`, `\w`, `\pL`, `\x{10FFFF}`, `(?i)`, `(?P<n>`}

type tctx struct {
	w     *harness.W
	pat   string
	h     []byte
	place string
	calls int64
	multi *guardmem.Multi
	win   *guardmem.Window
}

func (c *tctx) fail(op, want, got string) {
	c.w.Fail(&harness.Case{Op: op, Mode: c.place, Pattern: c.pat, Hay: strconv.Quote(string(c.h)), Want: want, Got: got, Cluster: strings.SplitN(op, "[", 2)[0]})
}

func (c *tctx) call(op string, f func()) {
	c.calls++
	defer func() {
		if r := recover(); r != nil {
			got := "panic: " + firstLine(fmt.Sprint(r))
			if ae, ok := r.(addrError); ok {
				if c.multi != nil {
					got = "memory fault at " + c.multi.DescribeAddr(ae.Addr())
				} else if c.win != nil {
					got = "memory fault at " + c.win.Describe(ae.Addr())
				}
			}
			c.fail(op, "returns normally", got)
		}
	}()
	f()
}

func (c *tctx) span(op string, s, e int) bool {
	if s < 0 || s > e || e > len(c.h) {
		c.fail(op, "0 <= start <= end <= len", fmt.Sprintf("[%d %d] with len %d", s, e, len(c.h)))
		return false
	}
	return true
}

func (c *tctx) caps(op string, m []int, nsub int) {
	if m == nil {
		return
	}
	if len(m) != 2*(nsub+1) {
		c.fail(op, fmt.Sprintf("%d indices", 2*(nsub+1)), fmt.Sprintf("%d indices %v", len(m), m))
		return
	}
	if !c.span(op, m[0], m[1]) {
		return
	}
	for i := 2; i+1 < len(m); i += 2 {
		a, b := m[i], m[i+1]
		if a == -1 && b == -1 {
			continue
		}
		if a < m[0] || a > b || b > m[1] {
			c.fail(op, "capture both -1 or ordered and inside the overall match", fmt.Sprint(m))
			return
		}
	}
}

func (c *tctx) seq(op string, ms [][]int) {
	prevEnd := -1
	prevStart := -1
	for _, m := range ms {
		if len(m) < 2 || !c.span(op, m[0], m[1]) {
			if len(m) < 2 {
				c.fail(op, "pairs", fmt.Sprint(ms))
			}
			return
		}
		if m[0] < prevEnd || m[0] < prevStart || (m[0] == prevStart && m[1] == prevEnd) {
			c.fail(op, "ordered, non-overlapping", fmt.Sprint(ms))
			return
		}
		prevStart, prevEnd = m[0], m[1]
	}
}

// alias: the returned slice must be the input at the reported offsets.
func (c *tctx) alias(op string, got []byte, s, e int) {
	if got == nil || len(c.h) == 0 {
		return
	}
	if len(got) != e-s {
		c.fail(op, fmt.Sprintf("len %d", e-s), fmt.Sprintf("len %d", len(got)))
		return
	}
	if len(got) > 0 && unsafe.Pointer(&got[0]) != unsafe.Pointer(&c.h[s]) {
		c.fail(op, "slice aliases the input at the reported offset", "a different backing array or offset")
	}
}

// methods runs every exported method of one compiled value on the placed haystack h.
func (c *tctx) methods(re *coregex.Regex, eng *meta.Engine) {
	h := c.h
	s := unsafe.String(unsafe.SliceData(h), len(h)) // string view of the guarded bytes: a write through it faults
	if len(h) == 0 {
		s = ""
	}
	nsub := re.NumSubexp()
	var fi []int
	c.call("Match", func() { re.Match(h); re.MatchString(s) })
	c.call("FindIndex", func() {
		fi = re.FindIndex(h)
		if fi != nil {
			if len(fi) != 2 {
				c.fail("FindIndex", "2 indices", fmt.Sprint(fi))
				fi = nil
				return
			}
			if !c.span("FindIndex", fi[0], fi[1]) {
				fi = nil
			}
		}
		if x := re.FindStringIndex(s); x != nil && len(x) == 2 {
			c.span("FindStringIndex", x[0], x[1])
		}
	})
	c.call("Find", func() {
		f := re.Find(h)
		if fi != nil && f != nil {
			c.alias("Find", f, fi[0], fi[1])
		}
		fs := re.FindString(s)
		if fi != nil && len(fs) != fi[1]-fi[0] {
			c.fail("FindString", fmt.Sprintf("len %d", fi[1]-fi[0]), fmt.Sprintf("len %d", len(fs)))
		}
	})
	c.call("FindSubmatchIndex", func() {
		c.caps("FindSubmatchIndex", re.FindSubmatchIndex(h), nsub)
		c.caps("FindStringSubmatchIndex", re.FindStringSubmatchIndex(s), nsub)
	})
	c.call("FindSubmatch", func() {
		sm := re.FindSubmatch(h)
		smi := re.FindSubmatchIndex(h)
		if sm != nil && smi != nil && len(sm)*2 == len(smi) {
			for i := range sm {
				if sm[i] != nil && smi[2*i] >= 0 && smi[2*i] <= smi[2*i+1] && smi[2*i+1] <= len(h) {
					c.alias("FindSubmatch", sm[i], smi[2*i], smi[2*i+1])
				}
			}
		}
		re.FindStringSubmatch(s)
	})
	for _, n := range []int{-1, 2} {
		n := n
		c.call("FindAllIndex", func() {
			c.seq("FindAllIndex", re.FindAllIndex(h, n))
			c.seq("FindAllStringIndex", re.FindAllStringIndex(s, n))
			all := re.FindAllSubmatchIndex(h, n)
			c.seq("FindAllSubmatchIndex", all)
			for _, m := range all {
				c.caps("FindAllSubmatchIndex", m, nsub)
			}
			c.seq("FindAllStringSubmatchIndex", re.FindAllStringSubmatchIndex(s, n))
		})
		c.call("FindAll", func() {
			idx := re.FindAllIndex(h, n)
			fa := re.FindAll(h, n)
			if len(fa) == len(idx) {
				for i := range fa {
					if idx[i][0] >= 0 && idx[i][0] <= idx[i][1] && idx[i][1] <= len(h) {
						c.alias("FindAll", fa[i], idx[i][0], idx[i][1])
					}
				}
			}
			re.FindAllString(s, n)
			re.FindAllSubmatch(h, n)
			re.FindAllStringSubmatch(s, n)
		})
	}
	c.call("Count", func() { re.Count(h, -1); re.CountString(s, 2) })
	c.call("AllIndex", func() {
		var ms [][]int
		for m := range re.AllIndex(h) {
			ms = append(ms, []int{m[0], m[1]})
			if len(ms) > len(h)+2 {
				c.fail("AllIndex", "terminates within len+1 matches", "more matches than positions")
				break
			}
		}
		c.seq("AllIndex", ms)
		k := 0
		for range re.AllString(s) {
			k++
			if k > len(h)+2 {
				break
			}
		}
		k = 0
		for range re.All(h) {
			k++
			if k > len(h)+2 {
				break
			}
		}
	})
	c.call("AppendAllIndex", func() {
		got := re.AppendAllIndex(make([][2]int, 0, 4), h, -1)
		var ms [][]int
		for _, m := range got {
			ms = append(ms, []int{m[0], m[1]})
		}
		c.seq("AppendAllIndex", ms)
		re.AppendAllStringIndex(nil, s, 3)
	})
	c.call("ReplaceAll", func() {
		re.ReplaceAll(h, []byte("<$0$1>"))
		re.ReplaceAllString(s, "${1}x$$")
		re.ReplaceAllLiteral(h, []byte("$1"))
		re.ReplaceAllLiteralString(s, "")
		re.ReplaceAllFunc(h, func(b []byte) []byte { return b })
		re.ReplaceAllStringFunc(s, func(x string) string { return x + x })
	})
	c.call("Split", func() { re.Split(s, -1); re.Split(s, 2); re.Split(s, 0) })
	c.call("Reader", func() {
		re.MatchReader(bytes.NewReader(h))
		if x := re.FindReaderIndex(bytes.NewReader(h)); x != nil && len(x) == 2 {
			c.span("FindReaderIndex", x[0], x[1])
		}
		c.caps("FindReaderSubmatchIndex", re.FindReaderSubmatchIndex(bytes.NewReader(h)), nsub)
	})
	c.call("Expand", func() {
		if m := re.FindSubmatchIndex(h); m != nil {
			re.Expand(nil, []byte("$1${0}$x"), h, m)
			re.ExpandString(nil, "$2", s, m)
		}
	})
	if eng != nil {
		for _, at := range []int{0, 1, len(h) / 2, len(h) - 1, len(h), len(h) + 1, len(h) + 7} {
			if at < 0 {
				continue
			}
			at := at
			c.call(fmt.Sprintf("Engine.*At[at=%d,len=%d]", at-len(h), 0), func() {
				if st, en, ok := eng.FindIndicesAt(h, at); ok {
					if c.span("Engine.FindIndicesAt", st, en) && st < at && at <= len(h) {
						c.fail("Engine.FindIndicesAt", fmt.Sprintf("start >= at (%d)", at), fmt.Sprintf("[%d %d]", st, en))
					}
				}
				if m := eng.FindAt(h, at); m != nil {
					c.span("Engine.FindAt", m.Start(), m.End())
				}
				if m := eng.FindSubmatchAt(h, at); m != nil {
					c.span("Engine.FindSubmatchAt", m.Start(), m.End())
				}
			})
		}
		c.call("Engine.misc", func() {
			eng.IsMatch(h)
			eng.Count(h, -1)
			eng.FindSubmatch(h)
			eng.FindAllSubmatch(h, 3)
			eng.FindAllIndicesStreaming(h, -1, nil)
		})
	}
}

// TotalPlan builds the C07 plan.
func TotalPlan(tier string) *harness.Plan {
	thorough := tier == "thorough"
	l20, l28 := 3, 2
	if thorough {
		l20, l28 = 4, 3
	}
	syms28 := append(append([]string{}, c07Syms...), c07Esc...)
	var strs []string
	seen := map[string]bool{}
	add := func(sigma []string, l int) {
		space.Words(sigma, l, func(b []byte) {
			if !seen[string(b)] {
				seen[string(b)] = true
				strs = append(strs, string(b))
			}
		})
	}
	add(c07Syms, l20)
	n20strs := len(strs)
	add(syms28, l28)
	nCompileOnly := 0
	var compileOnly []string
	if !thorough {
		// length-4 strings over the 20 symbols: Compile totality only (the search sweep on them is the thorough tier)
		space.Words(c07Syms, 4, func(b []byte) {
			if len(b) == 4 {
				compileOnly = append(compileOnly, string(b))
			}
		})
	} else {
		space.Words(c07Syms, 5, func(b []byte) {
			if len(b) == 5 {
				compileOnly = append(compileOnly, string(b))
			}
		})
	}
	nCompileOnly = len(compileOnly)
	// shared haystacks for the string space
	hs := space.Union(space.WordList([]string{"a", "b", "1", "\n", "é"}, 2), space.WordList(space.SigmaRaw, 1), [][]byte{[]byte("ab1"), []byte("a\nb"), []byte("aab"), []byte("\xc3\xa9\xc3")},
		space.Embed(space.WordList([]string{"b", "\xff"}, 1), []byte{'a', ' '}, []int{16, 32, 64}, []int{0, 33}))
	if thorough {
		hs = space.Union(hs, space.WordList(space.SigmaUTF8, 3), space.WordList(space.SigmaRaw, 3), space.Embed(space.WordList(space.SigmaUTF8, 1), []byte{'a', ' ', 'z'}, space.EmbedI, []int{0, 1, 33}))
	}
	seeds := space.SeedPatterns(0)
	if thorough {
		seeds = space.SeedPatternsLate(1, 1)
	}
	const blk = 256
	nStrU := (len(strs) + blk - 1) / blk
	nCoU := (nCompileOnly + 4095) / 4096
	nSeedU := len(seeds)
	// (patterns with super-linear search time are C05's business; the ladder stays where even a quadratic search
	// finishes well inside the watchdog)
	sizes := []int{255, 1023, 4095, 4096, 4097, 16385}
	if thorough {
		sizes = append(sizes, 65535, 65536, 65537, 131073)
	}
	var multi *guardmem.Multi
	var placedHi, placedLo [][]byte
	run := func(w *harness.W, u int) {
		switch {
		case u < nStrU:
			if multi == nil {
				multi = guardmem.NewMulti(2 * len(hs))
				for i, h := range hs {
					placedHi = append(placedHi, multi.Place(2*i, h, true))
					placedLo = append(placedLo, multi.Place(2*i+1, h, false))
				}
				multi.Protect(true)
			}
			lo, hi := u*blk, (u+1)*blk
			if hi > len(strs) {
				hi = len(strs)
			}
			calls, ok := int64(0), int64(0)
			for _, p := range strs[lo:hi] {
				c := &tctx{w: w, pat: p, multi: multi}
				var re *coregex.Regex
				var eng *meta.Engine
				c.h = nil
				c.call("Compile", func() {
					re, _ = coregex.Compile(p)
					if re != nil {
						eng, _ = meta.Compile(p)
					}
					coregex.CompilePOSIX(p)
				})
				w.C["states"]++
				if re == nil {
					calls += c.calls
					continue
				}
				ok++
				nh := len(hs)
				if lo >= n20strs {
					nh = min(nh, 14) // strings with multi-character escapes (\pL…) compile to large automata: fewer haystacks
				}
				for i := 0; i < nh; i++ {
					c.h, c.place = placedHi[i], "flush-upper-guard"
					c.methods(re, eng)
					c.h, c.place = placedLo[i], "flush-lower-guard"
					c.methods(re, nil)
					if !bytes.Equal(placedHi[i], hs[i]) || !bytes.Equal(placedLo[i], hs[i]) {
						c.fail("haystack-unchanged", "input bytes unchanged", "input modified")
					}
				}
				calls += c.calls
			}
			w.C["evaluations"] += calls
			w.C["transitions"] += calls
			w.C["traces_validated_against_impl"] += calls
			w.C["distinct_nontrivial"] += ok
			w.C["programs"] += ok
			if u == 0 || u == nStrU-1 {
				w.Sample(map[string]any{"kind": "pattern strings", "first": strs[lo], "last": strs[hi-1], "compiled": ok, "haystacks": len(hs), "method_calls": calls})
			}
		case u < nStrU+nCoU:
			b := u - nStrU
			lo, hi := b*4096, (b+1)*4096
			if hi > nCompileOnly {
				hi = nCompileOnly
			}
			okc := int64(0)
			for _, p := range compileOnly[lo:hi] {
				c := &tctx{w: w, pat: p}
				c.call("Compile", func() {
					if re, _ := coregex.Compile(p); re != nil {
						okc++
						re.MatchString("ab1")
						re.FindAllStringIndex("a\nb", -1)
					}
				})
			}
			w.C["states"] += int64(hi - lo)
			w.C["evaluations"] += int64(hi - lo)
			w.C["transitions"] += int64(hi - lo)
			w.C["traces_validated_against_impl"] += int64(hi - lo)
			w.C["distinct_nontrivial"] += okc
		default:
			// seeds: per-pattern token haystacks, embeddings, and the size ladder
			p := seeds[u-nStrU-nCoU]
			re, err := coregex.Compile(p)
			if err != nil {
				return
			}
			eng, _ := meta.Compile(p)
			toks := space.TokensFor(p, 5)
			shs := space.Union(space.WordList(toks, 2), space.Embed(space.WordList(toks, 1), []byte{'a', ' '}, space.EmbedI, []int{0, 1, 33}))
			win := guardmem.New(2)
			defer win.Free()
			c := &tctx{w: w, pat: p, win: win}
			for _, h := range shs {
				if len(h) > 4096 {
					continue
				}
				for _, hi := range []bool{true, false} {
					win.Writable()
					if hi {
						c.h, c.place = win.PlaceHi(h), "flush-upper-guard"
					} else {
						c.h, c.place = win.PlaceLo(h), "flush-lower-guard"
					}
					win.ReadOnly()
					c.methods(re, eng)
					if !bytes.Equal(c.h, h) {
						c.fail("haystack-unchanged", "input bytes unchanged", "input modified")
					}
				}
			}
			// size ladder: pump content, plain heap memory (too large for a cell)
			c.win = nil
			t0 := toks[0]
			for _, fill := range []string{"a", t0 + " ", "z\n"} {
				for _, n := range sizes {
					big := bytes.Repeat([]byte(fill), n/len(fill)+1)[:n]
					copy(big[n-min(n, len(t0)):], t0)
					c.h, c.place = big, fmt.Sprintf("heap len=%d fill=%q", n, fill)
					t0c := time.Now()
					c.call("large-input", func() {
						re.Match(big)
						if fi := re.FindIndex(big); fi != nil {
							c.span("FindIndex", fi[0], fi[1])
						}
						c.caps("FindSubmatchIndex", re.FindSubmatchIndex(big), re.NumSubexp())
						re.Count(big, 3)
						if n <= 4097 {
							c.seq("FindAllIndex", re.FindAllIndex(big, -1))
						}
					})
					c.h = big[:0] // do not print megabytes in a report
					if time.Since(t0c) > 400*time.Millisecond {
						// super-linear search time is C05's business: do not climb further with this content
						w.C["size_ladder_truncated_because_slow"]++
						break
					}
				}
			}
			w.C["states"] += int64(len(shs)*2 + len(sizes)*3)
			w.C["evaluations"] += c.calls
			w.C["transitions"] += c.calls
			w.C["traces_validated_against_impl"] += c.calls
			w.C["distinct_nontrivial"]++
			w.C["programs"]++
			if u%17 == 0 {
				w.Sample(map[string]any{"kind": "seed", "pattern": p, "guarded_haystacks": len(shs) * 2, "sizes": sizes, "method_calls": c.calls})
			}
		}
	}
	return &harness.Plan{
		Units: nStrU + nCoU + nSeedU, Chunk: 1, Run: run, UnitTimeout: 600 * time.Second, HangIsViolation: true,
		Describe: func(u int) string {
			switch {
			case u < nStrU:
				return fmt.Sprintf("pattern strings %q..", strs[u*blk])
			case u < nStrU+nCoU:
				return fmt.Sprintf("compile-only block %d", u-nStrU)
			}
			return "seed " + seeds[u-nStrU-nCoU]
		},
		Replay: func(w *harness.W, c *harness.Case) {
			for i, p := range strs {
				if p == c.Pattern {
					run(w, i/blk)
					return
				}
			}
			for i, p := range seeds {
				if p == c.Pattern {
					run(w, nStrU+nCoU+i)
					return
				}
			}
		},
		Rule:   "Pattern strings: every string of at most L symbols over the 20-symbol pattern alphabet (and L-1 over 28 symbols with multi-character escapes) is offered to Compile/CompilePOSIX (must return); each one that compiles runs EVERY exported search, enumeration, replace, split, expand and reader method plus the Engine *At entry points (also with offsets beyond the end) on every haystack of the shared set, each haystack placed once flush against an inaccessible page above and once below it in read-only memory (strings are unsafe.String views of the same bytes); one symbol longer strings are compile-checked. Seeds: the same on per-seed token haystacks and stride embeddings, plus the size ladder 255..16385 (thorough: ..131073), climbed only while a search still takes < 0.4 s (super-linear search time is C05). Monitors: no panic / fault / watchdog expiry, haystack bytes unchanged, 0<=start<=end<=len, capture pairs both -1 or ordered inside the match, enumerations ordered and non-overlapping and terminating, returned slices alias the input at the reported offsets. states = candidate strings and placements; transitions = method calls; non-trivial = strings that compile.",
		Level:  "model_checking",
		Bounds: map[string]any{"string_len_20_symbols": l20, "string_len_28_symbols": l28, "strings_searched": len(strs), "strings_compile_only": nCompileOnly, "shared_haystacks": len(hs), "seeds": len(seeds), "size_ladder": sizes},
		Budget: map[bool]time.Duration{false: 150 * time.Second, true: 25 * time.Minute}[thorough],
		Assume: []string{"out-of-bounds reads are detected only when they cross into the guard page the slice is flush against", "hangs are detected by the per-unit watchdog (600 s for units that normally take seconds), the only wall-clock judgement of the framework", "negative start offsets are outside the API contract and not explored"},
	}
}
