// Package mx holds the guarded-memory explorers (DESIGN §3 C18, C07).
package mx

import (
	"bytes"
	"fmt"
	"runtime"
	"strconv"
	"strings"
	"time"

	"github.com/coregx/coregex/simd"
	"golang.org/x/sys/cpu"

	"verif/internal/guardmem"
	"verif/internal/harness"
)

// simdCtx drives one primitive over all placements and lengths of a logical buffer.
type simdCtx struct {
	w      *harness.W
	win    *guardmem.Window
	lmax   int
	mids   []int
	prim   string
	varDsc string
	calls  int64
	hits   int64
}

type addrError interface{ Addr() uintptr }

// run lays the logical buffer B (len == lmax) out flush against both guards and at interior alignments, makes the
// window read-only, and applies f to every prefix (lower guard, interior) and every suffix (upper guard).
// f returns (got, want).
func (c *simdCtx) run(B []byte, f func(h []byte) (int, int)) {
	if len(B) != c.lmax {
		panic("mx: buffer length")
	}
	copy(c.win.Hi(c.lmax), B)
	copy(c.win.Lo(c.lmax), B)
	for i := range c.mids {
		copy(c.win.Mid(c.midOff(i), c.lmax), B)
	}
	for n := 0; n <= c.lmax; n++ {
		c.one("hi", c.win.Hi(n), f)
		c.one("lo", c.win.Lo(n), f)
		for i, k := range c.mids {
			c.one("mid"+strconv.Itoa(k), c.win.Mid(c.midOff(i), n), f)
		}
	}
	// no write: the placed copies are intact and everything between them is still zero
	c.verifyUnchanged(B)
}

// midOff: interior placement i starts at alignment mids[i] (mod 64) in its own 384-byte cell after the first page.
func (c *simdCtx) midOff(i int) int { return guardmem.Page + i*384 + 64 + c.mids[i] }

func (c *simdCtx) verifyUnchanged(B []byte) {
	d := c.win.Data
	ok := bytes.Equal(c.win.Hi(c.lmax), B) && bytes.Equal(c.win.Lo(c.lmax), B)
	for i := range c.mids {
		ok = ok && bytes.Equal(c.win.Mid(c.midOff(i), c.lmax), B)
	}
	if ok {
		// gaps
		prev := c.lmax
		for i := 0; i <= len(c.mids); i++ {
			end := len(d) - c.lmax
			if i < len(c.mids) {
				end = c.midOff(i)
			}
			for _, b := range d[prev:end] {
				if b != 0 {
					ok = false
					break
				}
			}
			if i < len(c.mids) {
				prev = c.midOff(i) + c.lmax
			}
		}
	}
	if !ok {
		c.fail("any", B, "memory unchanged", "the primitive wrote to the haystack or next to it")
		// repair so that later contents are judged on their own
		for i := range d {
			d[i] = 0
		}
	}
}

func (c *simdCtx) one(place string, h []byte, f func(h []byte) (int, int)) {
	c.calls++
	defer func() {
		if r := recover(); r != nil {
			got := "panic: " + firstLine(fmt.Sprint(r))
			if ae, ok := r.(addrError); ok {
				got = "memory fault at " + c.win.Describe(ae.Addr())
			}
			c.fail(place, h, "no fault", got)
		}
	}()
	got, want := f(h)
	if want >= 0 {
		c.hits++
	}
	if got != want {
		c.fail(place, h, strconv.Itoa(want), strconv.Itoa(got))
	}
}

func (c *simdCtx) fail(place string, h []byte, want, got string) {
	c.w.Fail(&harness.Case{Op: c.prim, Mode: c.w.Pass, Pattern: c.varDsc, Hay: strconv.Quote(string(h)), Args: "place=" + place, Want: want, Got: got, Cluster: c.prim})
}

func firstLine(s string) string {
	if i := strings.IndexByte(s, '\n'); i >= 0 {
		s = s[:i]
	}
	if len(s) > 160 {
		s = s[:160]
	}
	return s
}

func fill(B []byte, f byte) {
	for i := range B {
		B[i] = f
	}
}

// hitPositions: every position (thorough) or the block-boundary positions (quick) of a buffer of length n.
func hitPositions(n int, all bool) []int {
	if all {
		out := make([]int, n)
		for i := range out {
			out[i] = i
		}
		return out
	}
	var out []int
	for _, p := range []int{0, 1, 2, 7, 8, 14, 15, 16, 17, 30, 31, 32, 33, 47, 48, 62, 63, 64, 65, 95, 96, 97, 127, 128, 129, 159, 160, 161, 191, 192, 193, n - 2, n - 1} {
		if p >= 0 && p < n {
			out = append(out, p)
		}
	}
	return out
}

func naiveAny(h []byte, pred func(byte) bool) int {
	for i, b := range h {
		if pred(b) {
			return i
		}
	}
	return -1
}

func isWord(b byte) bool {
	return b >= '0' && b <= '9' || b >= 'A' && b <= 'Z' || b >= 'a' && b <= 'z' || b == '_'
}
func isDigit(b byte) bool { return b >= '0' && b <= '9' }

// SimdPrims lists the primitives; each has a number of variants (needle / filler choices) which are the work units.
type simdPrim struct {
	name     string
	variants []string
	run      func(c *simdCtx, v int, thorough bool)
}

var needles1 = []byte{0x00, 'a', 0x7f, 0x80, 0xff}

func singleByteFillers(n byte) []byte {
	return []byte{n + 1, n - 1, n ^ 0x80, n ^ 0x01}
}

func simdPrims() []simdPrim {
	var ps []simdPrim
	// Memchr: needle × filler
	{
		var vs []string
		for _, n := range needles1 {
			for _, f := range singleByteFillers(n) {
				vs = append(vs, fmt.Sprintf("needle=%#02x filler=%#02x", n, f))
			}
		}
		ps = append(ps, simdPrim{"Memchr", vs, func(c *simdCtx, v int, th bool) {
			n := needles1[v/4]
			f := singleByteFillers(n)[v%4]
			B := make([]byte, c.lmax)
			call := func(h []byte) (int, int) { return simd.Memchr(h, n), bytes.IndexByte(h, n) }
			fill(B, f)
			c.run(B, call) // no hit
			for _, p := range hitPositions(c.lmax, true) {
				fill(B, f)
				B[p] = n
				c.run(B, call)
			}
			// two hits: the first must win
			for _, p := range hitPositions(c.lmax, false) {
				for _, q := range []int{p + 1, p + 16, p + 32, p + 33} {
					if q < c.lmax {
						fill(B, f)
						B[p], B[q] = n, n
						c.run(B, call)
					}
				}
			}
		}})
	}
	// Memchr2 / Memchr3
	{
		type n3 struct{ a, b, c byte }
		sets := []n3{{'a', 'b', 'c'}, {0x00, 0xff, 0x80}, {'a', 'a', 'a'}, {0x7f, 0x80, 0x81}}
		var vs []string
		for _, s := range sets {
			vs = append(vs, fmt.Sprintf("needles=%#02x,%#02x,%#02x", s.a, s.b, s.c))
		}
		mk := func(three bool) func(c *simdCtx, v int, th bool) {
			return func(c *simdCtx, v int, th bool) {
				s := sets[v]
				B := make([]byte, c.lmax)
				call := func(h []byte) (int, int) {
					if three {
						return simd.Memchr3(h, s.a, s.b, s.c), naiveAny(h, func(x byte) bool { return x == s.a || x == s.b || x == s.c })
					}
					return simd.Memchr2(h, s.a, s.b), naiveAny(h, func(x byte) bool { return x == s.a || x == s.b })
				}
				for _, f := range []byte{s.a + 1, s.b ^ 0x80, s.c - 1, 0x55} {
					if f == s.a || f == s.b || f == s.c {
						f = 0x56
					}
					fill(B, f)
					c.run(B, call)
					for _, p := range hitPositions(c.lmax, th) {
						for _, n := range []byte{s.a, s.b, s.c} {
							fill(B, f)
							B[p] = n
							c.run(B, call)
						}
						if p+1 < c.lmax {
							fill(B, f)
							B[p], B[p+1] = s.c, s.a
							c.run(B, call)
						}
					}
				}
			}
		}
		ps = append(ps, simdPrim{"Memchr2", vs, mk(false)}, simdPrim{"Memchr3", vs, mk(true)})
	}
	// MemchrPair: offset × byte choice
	{
		offs := []int{-1, 0, 1, 2, 3, 4, 5, 6, 7, 8, 15, 16, 31, 32, 33}
		var vs []string
		for _, o := range offs {
			vs = append(vs, fmt.Sprintf("offset=%d b1=x b2=y", o), fmt.Sprintf("offset=%d b1=x b2=x", o))
		}
		ps = append(ps, simdPrim{"MemchrPair", vs, func(c *simdCtx, v int, th bool) {
			off := offs[v/2]
			b1, b2 := byte('x'), byte('y')
			if v%2 == 1 {
				b2 = 'x'
			}
			call := func(h []byte) (int, int) {
				want := -1
				if off >= 0 {
					for i := 0; i+off < len(h); i++ {
						if h[i] == b1 && h[i+off] == b2 {
							want = i
							break
						}
					}
				}
				return simd.MemchrPair(h, b1, b2, off), want
			}
			B := make([]byte, c.lmax)
			for _, f := range []byte{'a', b1 + 1, b2 ^ 0x80} {
				fill(B, f)
				c.run(B, call)
				for _, p := range hitPositions(c.lmax, th) {
					q := p + off
					if off < 0 {
						q = p + 1
					}
					if q >= c.lmax {
						continue
					}
					fill(B, f)
					B[p], B[q] = b1, b2
					c.run(B, call)
					// near misses: b1 alone; b2 alone; b2 one off; then the real pair later
					fill(B, f)
					B[p] = b1
					c.run(B, call)
					fill(B, f)
					B[q] = b2
					c.run(B, call)
					if q+1 < c.lmax && q+1 != p {
						fill(B, f)
						B[p], B[q+1] = b1, b2
						c.run(B, call)
					}
					if q+20 < c.lmax {
						fill(B, f)
						B[p] = b1
						B[p+10], B[q+10] = b1, b2
						c.run(B, call)
					}
				}
			}
		}})
	}
	// class primitives: every byte value as the sole hit and as the sole non-hit
	{
		var tbl [256]bool
		for i := range tbl {
			tbl[i] = i%3 == 0 || i == 0x80 || i == 0xff
		}
		type cp struct {
			name string
			call func(h []byte) int
			pred func(b byte) bool
		}
		cps := []cp{
			{"MemchrDigit", simd.MemchrDigit, isDigit},
			{"MemchrWord", simd.MemchrWord, isWord},
			{"MemchrNotWord", simd.MemchrNotWord, func(b byte) bool { return !isWord(b) }},
			{"MemchrInTable", func(h []byte) int { return simd.MemchrInTable(h, &tbl) }, func(b byte) bool { return tbl[b] }},
			{"MemchrNotInTable", func(h []byte) int { return simd.MemchrNotInTable(h, &tbl) }, func(b byte) bool { return !tbl[b] }},
		}
		for _, p := range cps {
			p := p
			// variants: 16 slices of the byte-value space
			var vs []string
			for i := 0; i < 16; i++ {
				vs = append(vs, fmt.Sprintf("byte values %#02x-%#02x", i*16, i*16+15))
			}
			ps = append(ps, simdPrim{p.name, vs, func(c *simdCtx, v int, th bool) {
				call := func(h []byte) (int, int) { return p.call(h), naiveAny(h, p.pred) }
				// fillers: one member and one non-member
				var member, non byte
				for b := 0; b < 256; b++ {
					if p.pred(byte(b)) {
						member = byte(b)
					} else {
						non = byte(b)
					}
				}
				B := make([]byte, c.lmax)
				for x := v * 16; x < v*16+16; x++ {
					for _, f := range []byte{member, non} {
						fill(B, f)
						if x == v*16 {
							c.run(B, call)
						}
						for _, pos := range hitPositions(c.lmax, th && x%16 == 0) {
							fill(B, f)
							B[pos] = byte(x)
							c.run(B, call)
						}
					}
				}
			}})
		}
		// MemchrDigitAt: every at
		ps = append(ps, simdPrim{"MemchrDigitAt", []string{"filler=a", "filler=:", "filler=/"}, func(c *simdCtx, v int, th bool) {
			f := []byte{'a', ':', '/'}[v]
			B := make([]byte, c.lmax)
			for _, pos := range append([]int{-1}, hitPositions(c.lmax, th)...) {
				for _, pos2 := range []int{-1, pos + 1, pos + 32} {
					fill(B, f)
					if pos >= 0 {
						B[pos] = '0' + byte(pos%10)
					}
					if pos2 >= 0 && pos2 < c.lmax && pos >= 0 {
						B[pos2] = '9'
					}
					for _, at := range []int{-1, 0, 1, pos - 1, pos, pos + 1, pos + 2, 16, 31, 32, 33, 64, c.lmax - 1, c.lmax, c.lmax + 1} {
						at := at
						c.run(B, func(h []byte) (int, int) {
							want := -1
							if at >= 0 && at < len(h) {
								for i := at; i < len(h); i++ {
									if isDigit(h[i]) {
										want = i
										break
									}
								}
							}
							return simd.MemchrDigitAt(h, at), want
						})
					}
				}
			}
		}})
	}
	// ASCII primitives
	{
		ps = append(ps, simdPrim{"IsASCII/CountNonASCII/FirstNonASCII", []string{"filler=0x7f hit=0x80", "filler=0x00 hit=0xff", "filler=0x80 hole=0x7f", "filler=0xc3 hole=a"}, func(c *simdCtx, v int, th bool) {
			f := []byte{0x7f, 0x00, 0x80, 0xc3}[v]
			x := []byte{0x80, 0xff, 0x7f, 'a'}[v]
			B := make([]byte, c.lmax)
			isA := func(h []byte) (int, int) {
				want := 1
				for _, b := range h {
					if b >= 0x80 {
						want = 0
					}
				}
				got := 0
				if simd.IsASCII(h) {
					got = 1
				}
				return got, want
			}
			cnt := func(h []byte) (int, int) {
				want := 0
				for _, b := range h {
					if b >= 0x80 {
						want++
					}
				}
				return simd.CountNonASCII(h), want
			}
			first := func(h []byte) (int, int) {
				return simd.FirstNonASCII(h), naiveAny(h, func(b byte) bool { return b >= 0x80 })
			}
			fill(B, f)
			c.run(B, isA)
			c.run(B, cnt)
			c.run(B, first)
			for _, p := range hitPositions(c.lmax, true) {
				fill(B, f)
				B[p] = x
				c.run(B, isA)
				c.run(B, cnt)
				c.run(B, first)
				if p%7 == 0 && p+9 < c.lmax {
					B[p+9] = x
					c.run(B, cnt)
					c.run(B, first)
				}
			}
		}})
	}
	// Memmem
	{
		var needles [][]byte
		var gen func(pre []byte, n int)
		gen = func(pre []byte, n int) {
			if len(pre) > 0 {
				needles = append(needles, append([]byte(nil), pre...))
			}
			if n == 0 {
				return
			}
			for _, b := range []byte("ab") {
				gen(append(pre, b), n-1)
			}
		}
		gen(nil, 4)
		needles = append(needles, []byte(""), []byte("abcabd"), []byte("zq"), []byte("e "), []byte("abcdefgh"), []byte("aaaaaaab"), []byte("baaaaaaa"),
			[]byte("abcdefghijklmnopqrstuvwxyz0123456"), bytes.Repeat([]byte("ab"), 20), append(bytes.Repeat([]byte("a"), 39), 'b'))
		var vs []string
		for _, n := range needles {
			vs = append(vs, fmt.Sprintf("needle=%q", n))
		}
		ps = append(ps, simdPrim{"Memmem", vs, func(c *simdCtx, v int, th bool) {
			nd := needles[v]
			call := func(h []byte) (int, int) { return simd.Memmem(h, nd), bytes.Index(h, nd) }
			B := make([]byte, c.lmax)
			fillers := []byte{'a', 'b', 'z'}
			if len(nd) > 0 {
				fillers = append(fillers, nd[0], nd[len(nd)-1])
			}
			for _, f := range fillers {
				fill(B, f)
				c.run(B, call)
				for _, p := range hitPositions(c.lmax, th) {
					if p+len(nd) > c.lmax {
						continue
					}
					fill(B, f)
					copy(B[p:], nd)
					c.run(B, call)
					// false start: the needle without its last byte, just before
					if len(nd) >= 2 {
						for _, gap := range []int{0, 1, 2} {
							q := p - (len(nd) - 1) - gap
							if q >= 0 {
								fill(B, f)
								copy(B[q:], nd[:len(nd)-1])
								copy(B[p:], nd)
								c.run(B, call)
							}
						}
					}
				}
			}
			// small-scope exhaustive: every haystack over {a,b} up to length 8 for the short needles
			if len(nd) <= 4 {
				for l := 1; l <= 8; l++ {
					for x := 0; x < 1<<l; x++ {
						h := c.win.Hi(l)
						for i := 0; i < l; i++ {
							h[i] = 'a' + byte(x>>i&1)
						}
						c.one("hi", h, call)
					}
				}
			}
		}})
	}
	return ps
}

// SimdPlan builds the C18 plan.
func SimdPlan(tier string) *harness.Plan {
	prims := simdPrims()
	type unit struct{ p, v int }
	var units []unit
	for pi, p := range prims {
		for v := range p.variants {
			units = append(units, unit{pi, v})
		}
	}
	thorough := tier == "thorough"
	lmax := 200
	mids := []int{1, 31, 33}
	if thorough {
		mids = nil
		for k := 0; k < 64; k++ {
			mids = append(mids, k)
		}
	}
	var win *guardmem.Window
	run := func(w *harness.W, u int) {
		if win == nil {
			win = guardmem.New(2 + (len(mids)*384+4095)/4096)
		}
		un := units[u]
		p := prims[un.p]
		c := &simdCtx{w: w, win: win, lmax: lmax, mids: mids, prim: p.name, varDsc: p.name + " " + p.variants[un.v]}
		p.run(c, un.v, thorough)
		w.C["evaluations"] += c.calls
		w.C["transitions"] += c.calls
		w.C["states"] += c.calls
		w.C["traces_validated_against_impl"] += c.calls
		w.C["distinct_nontrivial"] += c.hits
		w.C["calls_"+p.name] += c.calls
		if cpu.X86.HasAVX2 {
			w.C["calls_with_avx2_enabled"] += c.calls
		} else {
			w.C["calls_with_avx2_masked"] += c.calls
		}
		if un.v == 0 {
			w.Sample(map[string]any{"primitive": p.name, "variant": p.variants[un.v], "pass": w.Pass, "calls": c.calls, "hits": c.hits,
				"goarch": runtime.GOARCH, "avx2": cpu.X86.HasAVX2, "ssse3": cpu.X86.HasSSSE3})
		}
	}
	return &harness.Plan{
		Units: len(units), Chunk: 1, Run: run,
		Describe: func(u int) string { return prims[units[u].p].name + " " + prims[units[u].p].variants[units[u].v] },
		Replay: func(w *harness.W, c *harness.Case) {
			// replay: run the whole variant again under the recorded pass; the same (placement, haystack) must fail
			for u := range units {
				if prims[units[u].p].name+" "+prims[units[u].p].variants[units[u].v] == c.Pattern {
					run(w, u)
				}
			}
		},
		Rule:   "Every primitive of package simd, for every length 0..200, flush against an inaccessible page on either side (the placed copies and the zero gaps between them are verified unchanged after every content) and at interior alignments, with the hit at every position (and no hit, two hits, near-miss bytes, every byte value for the class primitives, every needle over {a,b}^<=4 plus rare/long needles for Memmem), compared with the one-line scalar definition; once per CPU-feature mask (worker processes started with GODEBUG=cpu.*=off). states = transitions = calls executed; non-trivial = calls whose scalar definition reports a hit (distinct by construction: distinct (content, placement, length) triples).",
		Level:  "model_checking",
		Bounds: map[string]any{"max_len": lmax, "interior_alignments": mids, "placements": []string{"flush-upper-guard", "flush-lower-guard", "interior"}},
		Passes: []harness.Pass{{Name: "native"}, {Name: "noavx2", Env: []string{"GODEBUG=cpu.avx2=off"}}, {Name: "noavx2-nossse3", Env: []string{"GODEBUG=cpu.avx2=off,cpu.ssse3=off,cpu.sse41=off"}}},
		Assume: []string{"page protection of the kernel detects out-of-slice accesses only when they cross into a guard page (slices are flush against it)",
			"golang.org/x/sys/cpu honours GODEBUG=cpu.<feature>=off; the evidence records the flags each pass observed",
			"lengths above 200 and contents outside the minimal distinguishing byte sets are not explored"},
		Budget: budget(tier),
	}
}

func budget(tier string) time.Duration {
	if tier == "thorough" {
		return 30 * time.Minute
	}
	return 150 * time.Second
}
