package space

// Haystack alphabets (DESIGN §2.2). Symbols are byte strings; a haystack is a sequence of ≤ L symbols.
var (
	// SigmaASCII: a, b (pattern letters), A (other word char; case-fold partner of a), 0 (digit), space, newline.
	SigmaASCII = []string{"a", "b", "A", "0", " ", "\n"}
	// SigmaUTF8 adds the 2-byte rune é and its fold partner É (valid UTF-8 closed).
	SigmaUTF8 = []string{"a", "b", "A", "0", " ", "\n", "é", "É"}
	// SigmaRaw: ill-formed sequences and truncated runes (0xC3 0xA9 = é split in two symbols; 0xFF never valid).
	// 0xED 0xA0 0x80 is an encoded surrogate: well-formed in structure, invalid as UTF-8 (package regexp steps over it one
	// byte at a time); 0x80 alone is a stray continuation byte and 0xC3 0x80 a second valid rune.
	SigmaRaw = []string{"a", "\n", "\xc3", "\xa9", "\xff", "\xed", "\xa0", "\x80"}
)

// Words calls f with every sequence of at most maxLen symbols over sigma, shortest first, in odometer order.
// The slice passed to f is reused.
func Words(sigma []string, maxLen int, f func([]byte)) {
	buf := make([]byte, 0, 64)
	idx := make([]int, maxLen)
	for l := 0; l <= maxLen; l++ {
		for i := range idx[:l] {
			idx[i] = 0
		}
		for {
			buf = buf[:0]
			for i := 0; i < l; i++ {
				buf = append(buf, sigma[idx[i]]...)
			}
			f(buf)
			// increment
			i := l - 1
			for i >= 0 {
				idx[i]++
				if idx[i] < len(sigma) {
					break
				}
				idx[i] = 0
				i--
			}
			if i < 0 {
				break
			}
		}
	}
}

// WordList materialises Words, deduplicated by content (different symbol sequences can spell the same bytes
// when symbols are multi-byte tokens).
func WordList(sigma []string, maxLen int) [][]byte {
	seen := map[string]struct{}{}
	var out [][]byte
	Words(sigma, maxLen, func(b []byte) {
		if _, ok := seen[string(b)]; ok {
			return
		}
		seen[string(b)] = struct{}{}
		out = append(out, append([]byte(nil), b...))
	})
	return out
}

// Union concatenates haystack lists, dropping duplicates (by content), preserving first-seen order.
func Union(lists ...[][]byte) [][]byte {
	seen := map[string]struct{}{}
	var out [][]byte
	for _, l := range lists {
		for _, b := range l {
			if _, ok := seen[string(b)]; ok {
				continue
			}
			seen[string(b)] = struct{}{}
			out = append(out, b)
		}
	}
	return out
}

// EmbedI is the set of left-pad lengths that straddle the 16/32/64-byte vector strides, the len>=32 / <64
// dispatch thresholds and the 100-byte estimated-start window.
var EmbedI = []int{0, 1, 15, 16, 17, 31, 32, 33, 63, 64, 65, 99, 100, 101, 128}

// Embed returns pad^i · w · pad^j for every i in is, j in js, pad in pads, w in words.
func Embed(words [][]byte, pads []byte, is, js []int) [][]byte {
	seen := map[string]struct{}{}
	var out [][]byte
	for _, w := range words {
		for _, pad := range pads {
			for _, i := range is {
				for _, j := range js {
					b := make([]byte, 0, i+len(w)+j)
					for k := 0; k < i; k++ {
						b = append(b, pad)
					}
					b = append(b, w...)
					for k := 0; k < j; k++ {
						b = append(b, pad)
					}
					if _, ok := seen[string(b)]; ok {
						continue
					}
					seen[string(b)] = struct{}{}
					out = append(out, b)
				}
			}
		}
	}
	return out
}
