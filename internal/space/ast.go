// Package space holds the deterministic, simplest-first enumerators of the bounded spaces
// (patterns P, seed neighbourhoods S, haystacks H, embeddings E, ...) described in DESIGN §2.2.
package space

import (
	"fmt"
	"regexp/syntax"
	"strings"
	"unicode/utf8"
)

// Kind of AST node.
type Kind uint8

const (
	KAtom   Kind = iota // Atom holds the regex text of an indivisible unit
	KUnary              // Op in UnaryOps (quantifier) applied to Kids[0]
	KCap                // capture group around Kids[0] (Name optional)
	KConcat             // Kids[0] Kids[1] ...
	KAlt                // Kids[0] | Kids[1] ...
)

// Node is a tiny regex AST which prints to Go regexp syntax. It is used both by the exhaustive
// by-size enumeration and by the seed edit neighbourhoods.
type Node struct {
	Kind Kind
	Atom string // KAtom: printed text (already a complete unit or needs grouping, see unit)
	Op   string // KUnary: one of UnaryOps
	Name string // KCap: optional group name
	Kids []*Node
}

// Atoms is the atom alphabet of P (one per feature a whitelist or the compiler distinguishes).
var Atoms = []string{
	"a", "b", "[ab]", "[^a]", `\w`, `\d`, `\s`, ".", "(?s:.)", "é",
	"(?i:a)", "(?i:é)", "(?:)", "^", "$", "(?m:^)", "(?m:$)", `\b`, `\B`,
}

// UnaryOps is the quantifier alphabet of P (capture is a separate node kind).
var UnaryOps = []string{"*", "+", "?", "*?", "+?", "??", "{2}", "{1,2}", "{2,}", "{0,2}"}

func A(s string) *Node           { return &Node{Kind: KAtom, Atom: s} }
func U(op string, k *Node) *Node { return &Node{Kind: KUnary, Op: op, Kids: []*Node{k}} }
func Cap(k *Node) *Node          { return &Node{Kind: KCap, Kids: []*Node{k}} }
func Cat(ks ...*Node) *Node      { return &Node{Kind: KConcat, Kids: ks} }
func Alt(ks ...*Node) *Node      { return &Node{Kind: KAlt, Kids: ks} }
func (n *Node) String() string   { var sb strings.Builder; n.print(&sb); return sb.String() }
func (n *Node) Size() int {
	s := 1
	for _, k := range n.Kids {
		s += k.Size()
	}
	return s
}
func (n *Node) HasCapture() bool {
	if n.Kind == KCap {
		return true
	}
	for _, k := range n.Kids {
		if k.HasCapture() {
			return true
		}
	}
	return false
}

// Clone deep-copies the tree.
func (n *Node) Clone() *Node {
	c := *n
	c.Kids = make([]*Node, len(n.Kids))
	for i, k := range n.Kids {
		c.Kids[i] = k.Clone()
	}
	return &c
}

// isUnit reports whether the printed atom can take a quantifier / sit in a concatenation without grouping.
func atomIsUnit(s string) bool {
	if s == "" {
		return false
	}
	if s[0] == '(' || s[0] == '[' {
		return true // already bracketed
	}
	if s[0] == '\\' {
		// a single escape such as \w \. \x{..} \pL \p{Greek}
		if len(s) == 2 {
			return true
		}
		if strings.HasPrefix(s, `\x{`) || strings.HasPrefix(s, `\p`) || strings.HasPrefix(s, `\P`) {
			return strings.Count(s, `\`) == 1
		}
		return false
	}
	if utf8.RuneCountInString(s) == 1 {
		return true
	}
	return false
}

func (n *Node) print(sb *strings.Builder) {
	switch n.Kind {
	case KAtom:
		sb.WriteString(n.Atom)
	case KUnary:
		k := n.Kids[0]
		if k.Kind == KAtom && atomIsUnit(k.Atom) && !isAssertAtom(k.Atom) || k.Kind == KCap {
			k.print(sb)
		} else {
			sb.WriteString("(?:")
			k.print(sb)
			sb.WriteString(")")
		}
		sb.WriteString(n.Op)
	case KCap:
		if n.Name != "" {
			fmt.Fprintf(sb, "(?P<%s>", n.Name)
		} else {
			sb.WriteString("(")
		}
		n.Kids[0].print(sb)
		sb.WriteString(")")
	case KConcat:
		for _, k := range n.Kids {
			if k.Kind == KAlt || k.Kind == KConcat || (k.Kind == KAtom && !atomIsUnit(k.Atom) && !isPlainLiteral(k.Atom)) {
				sb.WriteString("(?:")
				k.print(sb)
				sb.WriteString(")")
			} else {
				k.print(sb)
			}
		}
	case KAlt:
		for i, k := range n.Kids {
			if i > 0 {
				sb.WriteString("|")
			}
			if k.Kind == KAlt {
				sb.WriteString("(?:")
				k.print(sb)
				sb.WriteString(")")
			} else {
				k.print(sb)
			}
		}
	}
}

// isAssertAtom: zero-width atoms are grouped under a quantifier (`^*` is accepted by Go, `\b*` too, but
// grouping keeps the printed form unambiguous for every parser).
func isAssertAtom(s string) bool {
	switch s {
	case "^", "$", `\b`, `\B`, `\A`, `\z`:
		return true
	}
	return false
}

// isPlainLiteral: a multi-character literal such as "foo" (already QuoteMeta'd) can sit in a concatenation
// ungrouped.
func isPlainLiteral(s string) bool {
	return !strings.ContainsAny(s, "|()[]*+?{}^$.") || syntaxIsLiteral(s)
}

func syntaxIsLiteral(s string) bool {
	re, err := syntax.Parse(s, syntax.Perl)
	return err == nil && re.Op == syntax.OpLiteral
}

// BySize enumerates every AST with exactly n nodes over (Atoms, UnaryOps, capture, concat, alt), in a fixed
// order, calling f for each. Binary nodes are strictly binary, so size is the node count.
func BySize(n int, f func(*Node)) {
	memo := map[int][]*Node{}
	var gen func(n int, emit func(*Node))
	get := func(n int) []*Node {
		if v, ok := memo[n]; ok {
			return v
		}
		var out []*Node
		gen(n, func(x *Node) { out = append(out, x) })
		memo[n] = out
		return out
	}
	gen = func(n int, emit func(*Node)) {
		if n == 1 {
			for _, a := range Atoms {
				emit(A(a))
			}
			return
		}
		for _, k := range get(n - 1) {
			for _, op := range UnaryOps {
				emit(U(op, k))
			}
			emit(Cap(k))
		}
		for i := 1; i <= n-2; i++ {
			for _, l := range get(i) {
				for _, r := range get(n - 1 - i) {
					emit(Cat(l, r))
					emit(Alt(l, r))
				}
			}
		}
	}
	gen(n, f)
}

// Patterns returns the deduplicated printed patterns of all ASTs with at most maxSize nodes, simplest first.
func Patterns(maxSize int) []string {
	seen := map[string]struct{}{}
	var out []string
	for n := 1; n <= maxSize; n++ {
		BySize(n, func(x *Node) {
			s := x.String()
			if _, ok := seen[s]; ok {
				return
			}
			seen[s] = struct{}{}
			out = append(out, s)
		})
	}
	return out
}
