package space

import (
	"fmt"
	"regexp"
	"regexp/syntax"
	"sort"
	"strings"
	"unicode"
)

// Seed is a pattern known to select a given strategy / fast path on the pinned tree, together with the haystack
// token alphabet derived from it.
type Seed struct {
	Name    string
	Pattern string
}

// LateFrom is the index in Seeds of the first seed added in the third session (set in init; the generated literal
// sets appended after it are old except aho70). Late seeds are expanded one edit less than the older seeds in the
// thorough tiers (i.e. exactly as in the quick tiers), because the known-finding sets of the thorough tiers could not
// all be regenerated in the time left (SeedPatternsLate).
var lateSeed = map[string]bool{}

// IsLate reports whether the seed pattern was added in the third session.
func IsLate(pattern string) bool { return lateSeed[pattern] }

// Seeds lists the strategy seed patterns (DESIGN Appendix A). The strategy actually selected is measured at run
// time and reported in evidence; nothing depends on the label.
var Seeds = []Seed{
	{"nfa", `a*b*c*`}, {"nfa", `(?m)^a`}, {"nfa", `(?m)a$`}, {"nfa", `\bfoo\b`}, {"nfa", `\bb`},
	{"dfa", `ab|cd`}, {"dfa", `a.*b`}, {"dfa", `ab.*cd`}, {"dfa", `x.*abc.*y`}, {"dfa", `(a|b)*c`},
	{"dfa", `[a-c]*d[e-g]*h`}, {"dfa", `(a+)(b+)?`}, {"dfa", `(\w+)@(\w+)`}, {"dfa", `a{2,5}b`}, {"dfa", `(ab){2,}c`},
	{"dfa", `(?i)foobar|bazqux`}, {"dfa", `x[α-ω]+`},
	{"both", `.`},
	{"bt", `a|b`}, {"bt", `[a-z]*`}, {"bt", `([a-z])+[0-9]`}, {"bt", `^ab+`}, {"bt", `^(a|b)c`}, {"bt", `^(\w+)@(\w+)$`},
	{"bt", `^(a)(b)?`}, {"bt", `(a|b)*`}, {"bt", `\pL+`}, {"bt", `[^a]+`}, {"bt", `[α-ω]+`},
	{"ccs", `[ab]+`}, {"ccs", `[a-z]+`}, {"ccs", `[a-z]+?`}, {"ccs", `\w+`}, {"ccs", `\d+`},
	{"composite", `[a-z]+[0-9]+`}, {"composite", `[a-z]+[0-9]*`}, {"composite", `[a-z]*[0-9]+`}, {"composite", `[a-z]+[a-z]+[a-z]+[0-9]`},
	{"branch", `^(\d+|foo|xbar)`},
	{"anchlit", `^a.*b$`}, {"anchlit", `^/.*\.php$`}, {"anchlit", `^.*\.txt$`},
	{"revanch", `a$`}, {"revanch", `ab$`}, {"revanch", `.*b$`},
	{"revsuffix", `.*\.txt`}, {"revsuffix", `.+\.txt`}, {"revsuffix", `[^ ]+\.txt`}, {"revsuffix", `[0-9]+a`},
	{"revsuffixset", `.*\.(txt|log|md)`}, {"revsuffixset", `.*(foo|bar)`},
	{"revinner", `\w+@\w+`}, {"revinner", `.*@.*`}, {"revinner", `.*keyword.*`},
	{"mlrevsuffix", `(?m)^.*\.php`}, {"mlrevsuffix", `(?m)^/.*\.php`},
	{"teddy", `cab|ate`}, {"teddy", `abx|bcd`}, {"teddy", `abc|abd`}, {"teddy", `abc|xyz`}, {"teddy", `foo|bar|baz`}, {"teddy", `(foo|bar)x`}, {"teddy", `(?i)foo`},
	{"digit", `\d+\.\d+`}, {"digit", `\d+\.\d+\.\d+`},
	{"misc", `(a|ab)(c|bcd)(d*)`}, {"misc", `(a*)+`}, {"misc", `(a|b)*?c`}, {"misc", `\B$`}, {"misc", `^(?:\w|@|$)ab`},
	{"misc", `\W{2}`}, {"misc", `.*\n`}, {"misc", `(?s).*a`}, {"misc", `\d{1,3}\.\d{1,3}`}, {"misc", `[a-z]+ing`},
	{"misc", `"[^"]*"`}, {"misc", `<(\w+)>.*</(\w+)>`}, {"misc", `(?i)(foo|bar)baz`}, {"misc", `x*yz`}, {"misc", `ab?c+d*e`},
	// added after the seeded-change evaluation (DESIGN §11): self-overlapping literals (substring search with a repeated
	// lead byte), a reverse-suffix pattern whose DFA states exceed a small determinisation limit, a digit-lead pattern
	// with a proper sub-range of 0-9 and one with an unbounded tail, optional / alternative groups that a match may
	// not take part in, and the anchored-literal form with a class bridge before the suffix
	{"literal", `bba`}, {"literal", `aab`}, {"revsuffix", `[ab][a-z]{1,6}x`}, {"digit", `[0-5]+-[0-9]{2}`}, {"digit", `\d+\.[\d.]+[ab]`},
	{"caps", `(ab)?cd`}, {"caps", `(?:(a)|(b))c`}, {"anchlit", `^/.*[\w-]+\.php$`},
	// a case-insensitive literal through two three-member fold orbits, and an alternation whose later branch
	// extends an earlier, non-adjacent one
	{"fold", `(?i)ask`}, {"alt", `(ab|c|abd+)x`},
	// a four-part class sequence whose first class reappears (a restart inside a failed attempt matters)
	{"composite", `[a-z]+[0-9]+[a-z]+[A-Z]+`},
	// third session: a suffix alternation whose members share a proper common suffix (the reverse-suffix searcher
	// measures with the common suffix but searched for the whole literals: found on the pinned tree, FX-093), a
	// multiline reverse-suffix pattern with no prefix literal (every suffix candidate of a line re-verified the line:
	// quadratic, FX-094), and class sequences whose neighbouring classes overlap in each of the three possible ways
	// (the boundary of the composite searchers' linearity test)
	{"revsuffix", `.+(afoo|bfoo)`}, {"mlrevsuffix", `(?m)^.*\d\.php`},
	{"composite", `[a-z]+[a-z0-9]+[A-Z]+`}, {"composite", `[a-z0-9]+[a-z]+[A-Z]+`}, {"composite", `[A-Z]+[a-z]+[a-z0-9]+`},
	// a counted repetition of an alternation inside a concatenation (literal extraction truncates the alternation under
	// small limits and must keep the sequence flagged partial), and first-byte dispatch branches made of a literal
	// followed by an optional / starred / plus class (the boundary of the branch dispatcher's applicability test)
	{"alt", `(?:ab|cd|ef){2}x`}, {"branch", `^(a\d?|b\d*|c\d+|xyz)`},
}

func init() {
	// generated literal alternations: 9 / 17 (slim Teddy bucket sharing), 33 and 64 (fat Teddy), 70 (Aho-Corasick)
	for _, n := range []int{9, 17, 33, 64, 70} {
		Seeds = append(Seeds, Seed{fmt.Sprintf("lits%d", n), strings.Join(GenLiterals(n), "|")})
	}
	// 70 literals none of which contains another: the only seed that selects UseAhoCorasick (lits70 above overlaps
	// and is routed to the NFA with a prefilter; the evidence of the first two sessions showed 0 Aho-Corasick patterns)
	Seeds = append(Seeds, Seed{"aho70", strings.Join(AhoLiterals(70), "|")})
	lateSeed[strings.Join(AhoLiterals(70), "|")] = true
	for _, p := range []string{`.+(afoo|bfoo)`, `(?m)^.*\d\.php`, `[a-z]+[a-z0-9]+[A-Z]+`, `[a-z0-9]+[a-z]+[A-Z]+`, `[A-Z]+[a-z]+[a-z0-9]+`, `(?:ab|cd|ef){2}x`, `^(a\d?|b\d*|c\d+|xyz)`} {
		lateSeed[p] = true
	}
}

// AhoLiterals returns n distinct 4-byte literals none of which is a prefix or substring of another; an alternation of
// more than 64 of them selects the Aho-Corasick strategy (measured; GenLiterals(70) does not: its members overlap).
func AhoLiterals(n int) []string {
	var l []string
	for i := 0; i < n; i++ {
		l = append(l, fmt.Sprintf("%c%c%cz", 'a'+i%26, 'a'+(i/26)%26, 'a'+(i*7)%26))
	}
	return l
}

// GenLiterals returns n distinct 3-4 byte literals over a small alphabet, with forced nibble collisions
// (a/q/A share the low nibble) and prefix extensions (literal k+8 extends literal k-1's prefix).
func GenLiterals(n int) []string {
	alpha := "aqAbk"
	var out []string
	seen := map[string]bool{}
	for i := 0; len(out) < n; i++ {
		x := i
		var sb strings.Builder
		l := 3 + i%2
		for j := 0; j < l; j++ {
			sb.WriteByte(alpha[x%len(alpha)])
			x /= len(alpha)
		}
		s := sb.String()
		if !seen[s] {
			seen[s] = true
			out = append(out, s)
		}
	}
	return out
}

// FromSyntax converts a parsed regexp into the edit AST.
func FromSyntax(re *syntax.Regexp) *Node {
	fl := func(s string) string { return s }
	switch re.Op {
	case syntax.OpEmptyMatch:
		return A("(?:)")
	case syntax.OpNoMatch:
		return A(`[^\x00-\x{10FFFF}]`)
	case syntax.OpLiteral:
		var ks []*Node
		for _, r := range re.Rune {
			s := regexp.QuoteMeta(string(r))
			if re.Flags&syntax.FoldCase != 0 {
				s = "(?i:" + s + ")"
			}
			ks = append(ks, A(s))
		}
		if len(ks) == 1 {
			return ks[0]
		}
		return Cat(ks...)
	case syntax.OpCharClass, syntax.OpAnyCharNotNL, syntax.OpAnyChar, syntax.OpBeginLine, syntax.OpEndLine,
		syntax.OpBeginText, syntax.OpEndText, syntax.OpWordBoundary, syntax.OpNoWordBoundary:
		s := re.String()
		switch re.Op {
		case syntax.OpAnyCharNotNL:
			s = "."
		case syntax.OpAnyChar:
			s = "(?s:.)"
		case syntax.OpBeginLine:
			s = "(?m:^)"
		case syntax.OpEndLine:
			s = "(?m:$)"
		case syntax.OpBeginText:
			s = "^"
		case syntax.OpEndText:
			if re.Flags&syntax.WasDollar != 0 {
				s = "$"
			} else {
				s = `\z`
			}
		case syntax.OpWordBoundary:
			s = `\b`
		case syntax.OpNoWordBoundary:
			s = `\B`
		}
		return A(fl(s))
	case syntax.OpCapture:
		n := Cap(FromSyntax(re.Sub[0]))
		n.Name = re.Name
		return n
	case syntax.OpStar, syntax.OpPlus, syntax.OpQuest, syntax.OpRepeat:
		var op string
		switch re.Op {
		case syntax.OpStar:
			op = "*"
		case syntax.OpPlus:
			op = "+"
		case syntax.OpQuest:
			op = "?"
		case syntax.OpRepeat:
			switch {
			case re.Max == re.Min:
				op = fmt.Sprintf("{%d}", re.Min)
			case re.Max < 0:
				op = fmt.Sprintf("{%d,}", re.Min)
			default:
				op = fmt.Sprintf("{%d,%d}", re.Min, re.Max)
			}
		}
		if re.Flags&syntax.NonGreedy != 0 {
			op += "?"
		}
		return U(op, FromSyntax(re.Sub[0]))
	case syntax.OpConcat, syntax.OpAlternate:
		var ks []*Node
		for _, s := range re.Sub {
			k := FromSyntax(s)
			if re.Op == syntax.OpConcat && k.Kind == KConcat {
				ks = append(ks, k.Kids...)
			} else {
				ks = append(ks, k)
			}
		}
		if re.Op == syntax.OpConcat {
			return Cat(ks...)
		}
		return Alt(ks...)
	}
	panic("space.FromSyntax: unknown op " + re.Op.String())
}

// ParseSeed parses a seed pattern into the edit AST (no simplification, Perl flags — what meta.Compile sees).
func ParseSeed(p string) (*Node, error) {
	re, err := syntax.Parse(p, syntax.Perl)
	if err != nil {
		return nil, err
	}
	return FromSyntax(re), nil
}

// EditAtoms is the replacement/insert menu of the one-edit neighbourhood.
var EditAtoms = []string{"a", "b", "[ab]", "[^a]", `\w`, `\d`, `\s`, ".", "(?s:.)", "é", "(?i:a)", "(?:)", "^", "$", "(?m:^)", "(?m:$)", `\b`, `\B`, "\n"}

// paths enumerates every node with a setter that replaces it in a cloned tree.
type edit struct {
	root *Node
}

func walk(n *Node, path []int, f func(n *Node, path []int)) {
	f(n, path)
	for i, k := range n.Kids {
		walk(k, append(append([]int{}, path...), i), f)
	}
}

func replaceAt(root *Node, path []int, repl func(old *Node) *Node) *Node {
	c := root.Clone()
	if len(path) == 0 {
		return repl(c)
	}
	cur := c
	for _, i := range path[:len(path)-1] {
		cur = cur.Kids[i]
	}
	last := path[len(path)-1]
	r := repl(cur.Kids[last])
	if r == nil {
		// delete child
		cur.Kids = append(cur.Kids[:last:last], cur.Kids[last+1:]...)
	} else {
		cur.Kids[last] = r
	}
	return normalise(c)
}

// normalise collapses 1-child concat/alt nodes and 0-child ones into the empty atom.
func normalise(n *Node) *Node {
	for i, k := range n.Kids {
		n.Kids[i] = normalise(k)
	}
	if (n.Kind == KUnary || n.Kind == KCap) && len(n.Kids) == 0 {
		n.Kids = []*Node{A("(?:)")}
	}
	if n.Kind == KConcat || n.Kind == KAlt {
		switch len(n.Kids) {
		case 0:
			return A("(?:)")
		case 1:
			return n.Kids[0]
		}
	}
	return n
}

func toggleLazy(op string) string {
	if strings.HasSuffix(op, "?") && op != "?" {
		return strings.TrimSuffix(op, "?")
	}
	return op + "?"
}

// Neighbours returns every pattern one edit away from root (full menu when full, structural sub-menu otherwise),
// as printed strings, deduplicated, excluding the root itself.
func Neighbours(root *Node, full bool) []string {
	seen := map[string]struct{}{root.String(): {}}
	var out []string
	add := func(n *Node) {
		s := n.String()
		if _, ok := seen[s]; ok {
			return
		}
		seen[s] = struct{}{}
		out = append(out, s)
	}
	walk(root, nil, func(n *Node, path []int) {
		// delete node (if it has a parent with >1 kids) or replace by its only child
		if len(path) > 0 {
			add(replaceAt(root, path, func(*Node) *Node { return nil }))
		}
		if len(n.Kids) == 1 {
			add(replaceAt(root, path, func(o *Node) *Node { return o.Kids[0] }))
		}
		// wrap in capture
		add(replaceAt(root, path, func(o *Node) *Node { return Cap(o) }))
		switch n.Kind {
		case KUnary:
			add(replaceAt(root, path, func(o *Node) *Node { o.Op = toggleLazy(o.Op); return o }))
			if full {
				for _, op := range UnaryOps {
					add(replaceAt(root, path, func(o *Node) *Node { o.Op = op; return o }))
				}
			}
		case KAtom:
			if full {
				for _, a := range EditAtoms {
					add(replaceAt(root, path, func(*Node) *Node { return A(a) }))
				}
				for _, op := range []string{"*", "+", "?", "*?", "{2}"} {
					add(replaceAt(root, path, func(o *Node) *Node { return U(op, o) }))
				}
			}
		case KConcat:
			if full {
				for pos := 0; pos <= len(n.Kids); pos++ {
					for _, a := range EditAtoms {
						add(replaceAt(root, path, func(o *Node) *Node {
							ks := append([]*Node{}, o.Kids[:pos]...)
							ks = append(ks, A(a))
							ks = append(ks, o.Kids[pos:]...)
							o.Kids = ks
							return o
						}))
					}
				}
			}
		case KAlt:
			if full {
				for _, a := range []string{"a", "(?:)", `\w`} {
					add(replaceAt(root, path, func(o *Node) *Node { o.Kids = append(o.Kids, A(a)); return o }))
					add(replaceAt(root, path, func(o *Node) *Node { o.Kids = append([]*Node{A(a)}, o.Kids...); return o }))
				}
			}
		}
	})
	// whole-pattern edits
	rs := root.String()
	for _, fl := range []string{"(?i)", "(?m)", "(?s)", "(?U)"} {
		s := fl + rs
		if _, ok := seen[s]; !ok {
			seen[s] = struct{}{}
			out = append(out, s)
		}
	}
	if full {
		for _, a := range EditAtoms {
			add(Cat(A(a), root.Clone()))
			add(Cat(root.Clone(), A(a)))
			add(Alt(root.Clone(), A(a)))
			add(Alt(A(a), root.Clone()))
		}
		for _, op := range UnaryOps {
			add(U(op, root.Clone()))
		}
	}
	return out
}

// SeedPatterns returns the seeds (k=0), their full one-edit neighbourhoods (k=1) and, for k=2, one further
// structural edit of every member of the k=1 set. Deduplicated, seeds first.
func SeedPatterns(k int) []string { return SeedPatternsLate(k, 0) }

// SeedPatternsLate is SeedPatterns with the Late seeds expanded to k-lateDelta edits only.
func SeedPatternsLate(k, lateDelta int) []string {
	seen := map[string]struct{}{}
	var out []string
	add := func(s string) bool {
		if _, ok := seen[s]; ok {
			return false
		}
		seen[s] = struct{}{}
		out = append(out, s)
		return true
	}
	var roots []*Node
	var depth []int // edits applied to each root
	for _, sd := range Seeds {
		add(sd.Pattern)
		n, err := ParseSeed(sd.Pattern)
		if err != nil {
			panic(err)
		}
		roots = append(roots, n)
		d := k
		if lateSeed[sd.Pattern] {
			d = max(k-lateDelta, 0)
		}
		depth = append(depth, d)
	}
	var lvl1 []string // level-1 members whose root is expanded to two edits
	for i, r := range roots {
		if depth[i] < 1 {
			continue
		}
		// the generated literal sets: structural menu only (the full menu would be ~10k each)
		for _, s := range Neighbours(r, r.Size() <= 60) {
			if add(s) && depth[i] >= 2 {
				lvl1 = append(lvl1, s)
			}
		}
	}
	for _, s := range lvl1 {
		n, err := ParseSeed(s)
		if err != nil || n.Size() > 60 {
			continue
		}
		for _, s2 := range Neighbours(n, false) {
			add(s2)
		}
	}
	return out
}

// TokensFor derives the haystack token alphabet for a pattern: its maximal literal runs, their truncations,
// one representative per character class feature, and structural bytes. Capped at maxTok tokens.
func TokensFor(pattern string, maxTok int) []string {
	re, err := syntax.Parse(pattern, syntax.Perl)
	if err != nil {
		return []string{"a", "\n"}
	}
	set := map[string]int{}
	order := 0
	add := func(s string, prio int) {
		if s == "" {
			return
		}
		if _, ok := set[s]; !ok {
			set[s] = prio*1000 + order
			order++
		}
	}
	var visit func(*syntax.Regexp)
	visit = func(r *syntax.Regexp) {
		switch r.Op {
		case syntax.OpLiteral:
			s := string(r.Rune)
			if r.Flags&syntax.FoldCase != 0 {
				add(strings.ToLower(s), 0)
				add(strings.ToUpper(s), 1)
				// spellings through the third member of a simple-fold orbit (k/K/KELVIN SIGN, s/S/LONG S)
				for i, c := range r.Rune {
					for f := unicode.SimpleFold(c); f != c; f = unicode.SimpleFold(f) {
						if f != unicode.ToLower(c) && f != unicode.ToUpper(c) {
							v := append([]rune{}, r.Rune...)
							v[i] = f
							add(string(v), 1)
						}
					}
				}
			} else {
				add(s, 0)
			}
			if len(r.Rune) > 1 {
				add(string(r.Rune[:len(r.Rune)-1]), 3)
				add(string(r.Rune[1:]), 4)
			}
		case syntax.OpCharClass:
			// first rune of the first range, and the last rune of it
			if len(r.Rune) >= 2 {
				add(string(r.Rune[0]), 1)
				if r.Rune[1] != r.Rune[0] {
					add(string(r.Rune[1]), 4)
				}
			}
		}
		for _, s := range r.Sub {
			visit(s)
		}
	}
	visit(re)
	add("\n", 1)
	add("a", 2)
	for _, s := range []string{"0", " ", "Z", "é"} {
		add(s, 5)
	}
	type kv struct {
		s string
		p int
	}
	var l []kv
	for s, p := range set {
		l = append(l, kv{s, p})
	}
	sort.Slice(l, func(i, j int) bool { return l[i].p < l[j].p })
	var out []string
	for _, e := range l {
		if len(out) >= maxTok {
			break
		}
		out = append(out, e.s)
	}
	return out
}
