// Package wx is the work-growth explorer of DESIGN §3 C05: on a build of the library in which every function
// entry and loop iteration increments a deterministic counter, every pattern of the bounded space is searched on
// every pump family u·v^n·x at n = N, 2N, 4N, and the growth of the counter is judged (doubling the haystack may at
// most roughly double the work). The code that measures lives in cmd/wx (overlay build only).
package wx

import (
	"fmt"
	"strings"
	"time"

	"verif/internal/bx"
	"verif/internal/harness"
	"verif/internal/space"
)

// Family is a pump family u·v^n·x.
type Family struct{ U, V, X string }

func (f Family) String() string { return fmt.Sprintf("%q·%q^n·%q", f.U, f.V, f.X) }

// Make builds the haystack of (at least) n bytes.
func (f Family) Make(n int) []byte {
	reps := (n - len(f.U) - len(f.X)) / len(f.V)
	if reps < 1 {
		reps = 1
	}
	return []byte(f.U + strings.Repeat(f.V, reps) + f.X)
}

// Families enumerates the pump families of a tier.
func Families(thorough bool) []Family {
	vs := []string{"a", "b", "0", " ", "ab", "a0", "a ", "é", "\n"}
	us := []string{"", "b"}
	xs := []string{"", "b", "0", "!!!!!!!!"} // the long tail lies outside every class of the alphabet: a run that ends well before the end
	if thorough {
		vs = append(vs, "ba", "0a", " a", "aé", "a\n", "abc", "ab0", "a.b")
		us = []string{"", "a", "b", "0"}
		xs = []string{"", "a", "b", "0", "\n"}
	}
	var out []Family
	for _, v := range vs {
		for _, u := range us {
			for _, x := range xs {
				out = append(out, Family{u, v, x})
			}
		}
	}
	return out
}

// TokenFamilies are the pump families derived from a seed pattern's own token alphabet (its literals, class
// representatives and their neighbours): v ranges over the tokens and the ordered pairs of tokens, u over {"", first
// token}, x over {"", long out-of-class tail, first token}.
func TokenFamilies(pattern string, thorough bool) []Family {
	n := 5
	if thorough {
		n = 7
	}
	toks := space.TokensFor(pattern, n)
	var vs []string
	seen := map[string]bool{}
	add := func(v string) {
		if v != "" && len(v) <= 12 && !seen[v] {
			seen[v] = true
			vs = append(vs, v)
		}
	}
	for _, t := range toks {
		add(t)
	}
	for _, a := range toks {
		for _, b := range toks {
			if a != b {
				add(a + b)
			}
		}
	}
	var out []Family
	for _, v := range vs {
		for _, u := range []string{"", toks[0]} {
			for _, x := range []string{"", "!!!!!!!!", toks[0]} {
				out = append(out, Family{u, v, x})
			}
		}
	}
	return out
}

// CompileFamily is a family of patterns of growing size.
type CompileFamily struct {
	Name string
	Max  int
	Gen  func(n int) string
}

// CompileFamilies lists the compile-time families.
func CompileFamilies(thorough bool) []CompileFamily {
	max := 96
	if thorough {
		max = 384
	}
	return []CompileFamily{
		{"nest-capture", max, func(n int) string { return strings.Repeat("(", n) + "a" + strings.Repeat(")", n) }},
		{"nest-star", max / 2, func(n int) string { return strings.Repeat("(?:", n) + "a" + strings.Repeat(")*", n) }},
		{"repeat", max * 4, func(n int) string { return fmt.Sprintf("a{%d}", n) }},
		{"repeat-nested", max / 4, func(n int) string { return fmt.Sprintf("(?:a{%d}){%d}", n, n) }},
		{"alternation", max * 4, func(n int) string {
			var sb strings.Builder
			for i := 0; i < n; i++ {
				if i > 0 {
					sb.WriteByte('|')
				}
				fmt.Fprintf(&sb, "w%d", i)
			}
			return sb.String()
		}},
		{"class-ranges", max, func(n int) string {
			var sb strings.Builder
			sb.WriteByte('[')
			for i := 0; i < n; i++ {
				fmt.Fprintf(&sb, `\x{%x}-\x{%x}`, 0x100+4*i, 0x100+4*i+1)
			}
			sb.WriteByte(']')
			return sb.String()
		}},
		{"concat-classes", max, func(n int) string { return strings.Repeat(`[a-c]\d`, n) }},
		{"optional-chain", max, func(n int) string { return strings.Repeat("a?", n) + strings.Repeat("a", n) }},
		// third session: literal length (exact, case-insensitive, case-insensitive through the three-member fold orbits),
		// products of small alternatives / classes (literal cross products), counted ranges, dot and Unicode-class
		// repetition, alternations of case-insensitive words, and right-nested alternation
		{"literal", max * 4, func(n int) string { return strings.Repeat("a", n) }},
		{"literal-fold", max * 2, func(n int) string {
			b := []byte("(?i)")
			for i := 0; i < n; i++ {
				b = append(b, byte('a'+i%26))
			}
			return string(b)
		}},
		{"literal-fold-orbits", max, func(n int) string { return "(?i)" + strings.Repeat("ks", n) }},
		{"alt-product", max / 2, func(n int) string { return strings.Repeat("(?:a|b)", n) + "c" }},
		{"class-product", max, func(n int) string { return strings.Repeat("[ab]", n) + "c" }},
		{"repeat-range", max * 4, func(n int) string { return fmt.Sprintf("a{0,%d}", n) }},
		{"repeat-range-group", max * 2, func(n int) string { return fmt.Sprintf("x(a{1,%d})y", n) }},
		{"dot-repeat", max * 2, func(n int) string { return fmt.Sprintf(".{%d}", n) }},
		{"unicode-class-repeat", max / 4, func(n int) string { return fmt.Sprintf(`\pL{%d}`, n) }},
		{"alt-fold", max, func(n int) string {
			var sb strings.Builder
			sb.WriteString("(?i)")
			for i := 0; i < n; i++ {
				if i > 0 {
					sb.WriteByte('|')
				}
				fmt.Fprintf(&sb, "word%c%c", 'a'+i%26, 'a'+(i/26)%26)
			}
			return sb.String()
		}},
		{"alt-nested", max, func(n int) string {
			s := "z"
			for i := 0; i < n; i++ {
				s = fmt.Sprintf("(?:%c|%s)", 'a'+i%25, s)
			}
			return s
		}},
		{"suffix-after-star", max * 2, func(n int) string { return ".*" + strings.Repeat("ab", n) }},
	}
}

// RunUnit / RunCompile are installed by cmd/wx.
var RunUnit func(w *harness.W, pattern string, fams []Family, n int)
var RunCompile func(w *harness.W, f CompileFamily)

// Space returns the tier's pattern space.
func Space(thorough bool) *bx.Space {
	t := bx.Tier{PN: 3, SK: 0, LASCII: 1, EmbedW: -1, TokL: 1, TokN: 2, SeedEmbW: -1}
	if thorough {
		t = bx.Tier{PN: 4, SK: 1, LateSKDelta: 1, LASCII: 1, EmbedW: -1, TokL: 1, TokN: 2, SeedEmbW: -1} // same seeds first, then their neighbours
	}
	return bx.NewSpace(t)
}

// Plan builds the C05 plan.
func Plan(tier string) *harness.Plan {
	thorough := tier == "thorough"
	sp := Space(thorough)
	fams := Families(thorough)
	cfs := CompileFamilies(thorough)
	n := 256
	budget := 150 * time.Second
	if thorough {
		n, budget = 1024, 25*time.Minute
	}
	return &harness.Plan{
		Units: len(sp.Pats) + len(cfs), Chunk: 8,
		Run: func(w *harness.W, u int) {
			if RunUnit == nil {
				panic("wx: not an instrumented build")
			}
			if u < len(sp.Pats) {
				f := fams
				if u >= sp.NP && u-sp.NP < len(space.Seeds) {
					// the strategy seeds also get the families over their own tokens
					f = append(append([]Family{}, fams...), TokenFamilies(sp.Pats[u], thorough)...)
				}
				RunUnit(w, sp.Pats[u], f, n)
			} else {
				RunCompile(w, cfs[u-len(sp.Pats)])
			}
		},
		Describe: func(u int) string {
			if u < len(sp.Pats) {
				return fmt.Sprintf("pattern %q", sp.Pats[u])
			}
			return "compile family " + cfs[u-len(sp.Pats)].Name
		},
		Replay: func(w *harness.W, c *harness.Case) {
			for _, p := range sp.Pats {
				if p == c.Pattern {
					RunUnit(w, p, append(append([]Family{}, fams...), TokenFamilies(p, thorough)...), n)
					return
				}
			}
			for _, f := range cfs {
				if "compile family "+f.Name == c.Pattern {
					RunCompile(w, f)
				}
			}
		},
		Rule:  "Work proxy: the library is rebuilt (go build -overlay, generated from the current tree) with a counter incremented at every function entry and at every loop iteration of every non-test Go file; the counter is deterministic. For every pattern AST up to N nodes and every strategy seed (thorough: one-edit neighbours), for every pump family u·v^n·x over the listed u, v, x (for the strategy seeds additionally v over the tokens of the seed's own alphabet and their ordered pairs, x over {empty, an 8-byte out-of-class tail, the first token}), the haystack is built at lengths L, 2L, 4L and Match, FindIndex and FindSubmatchIndex are measured on a freshly compiled value after one warm-up call. Oracle: W(4L) <= 2.6·W(2L) whenever W(4L) is large enough to be meaningful (>= 64 ticks per byte-independent constant), and W <= K·(states+8)·(len+1) with a fixed generous K; a search exceeding 40 000 ticks per input byte is stopped and counted as super-linear (the cap is itself a verdict, not a time-out). Compilation: pattern families (nesting, counted repetition and ranges, nested repetition, alternation width, class ranges, concatenations, a?^n a^n, literal length exact / case-insensitive / through three-member fold orbits, products of alternatives and of classes, dot and Unicode-class repetition, case-insensitive alternations, right-nested alternation, long suffix literals) at every size up to the bound, oracle W(2k) <= 8·W(k) + c (polynomial growth of degree <= 3) and W(k) <= 64·W(k-1) + c enforced as a work limit during the compilation itself (a blow-up is stopped by the deterministic counter, not by a clock). states = (program, family, length) inputs; transitions = measured calls; non-trivial = measurements above the noise threshold.",
		Level: "model_checking", Budget: budget, UnitTimeout: 600 * time.Second,
		Bounds: map[string]any{"pattern_ast_nodes_max": sp.T.PN, "seed_edit_distance": sp.T.SK, "patterns": len(sp.Pats), "pump_families": len(fams), "base_length": n, "lengths": []int{n, 2 * n, 4 * n}, "compile_families": len(cfs)},
		Assume: []string{"L2: the bounded exploration decides the growth RATE up to 4L on the enumerated families; the existence of a global constant K beyond that is an assumption", "work inside assembly kernels and the standard library is not counted (each call counts one tick); such scans only advance left to right", "ticks are a proxy for time: function entries + loop iterations of library code"},
	}
}
