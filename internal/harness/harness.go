// Package harness is the explorer runtime of DESIGN §2.4: a coordinator that shards a deterministic unit space
// over worker processes, attributes crashes and hangs to the unit in flight, looks failing cases up in the
// known-findings store, writes replay files, and produces the evidence file from its own counters.
package harness

import (
	"bufio"
	"encoding/json"
	"fmt"
	"io"
	"os"
	"os/exec"
	"path/filepath"
	"runtime"
	"runtime/debug"
	"sort"
	"strconv"
	"strings"
	"sync"
	"time"

	"verif/internal/kf"
)

// Case is one failing (or replayable) case. Its identity is (Op, Mode, Pattern, Hay, Args, Got).
type Case struct {
	Property string            `json:"property"`
	Op       string            `json:"op"`
	Mode     string            `json:"mode,omitempty"`
	Pattern  string            `json:"pattern"`
	Hay      string            `json:"haystack"` // Go-quoted (strconv.Quote) bytes
	Args     string            `json:"args,omitempty"`
	Want     string            `json:"want"`
	Got      string            `json:"got"`
	Cluster  string            `json:"cluster,omitempty"`
	Extra    map[string]string `json:"extra,omitempty"`
	Key      string            `json:"key,omitempty"` // hex of the identity hash
}

func (c *Case) Hash() uint64 {
	return kf.Hash([]byte(c.Property), []byte(c.Op), []byte(c.Mode), []byte(c.Pattern), []byte(c.Hay), []byte(c.Args), []byte(c.Got))
}

// HayBytes decodes the quoted haystack.
func (c *Case) HayBytes() []byte {
	s, err := strconv.Unquote(c.Hay)
	if err != nil {
		panic("bad haystack quoting in case: " + c.Hay)
	}
	return []byte(s)
}

// Plan is the deterministic description of what one (property, tier) run explores.
type Plan struct {
	Units           int                                         // number of work units (e.g. patterns)
	Chunk           int                                         // units per job (default 16)
	Run             func(w *W, unit int)                        // executes one unit in a worker
	Describe        func(unit int) string                       // for crash attribution / samples
	Replay          func(w *W, c *Case)                         // re-runs exactly the case; must call w.Fail again if it still fails
	Rule            string                                      // evidence: how cases are enumerated, what is non-trivial
	Level           string                                      // evidence level
	Assume          []string                                    // evidence assumptions
	Bounds          map[string]any                              // evidence: the bounds of this tier
	Budget          time.Duration                               // internal deadline for dispatching
	UnitTimeout     time.Duration                               // watchdog per unit (default 120 s)
	Passes          []Pass                                      // the whole unit space is explored once per pass (default: one unnamed pass)
	Extra           func(total map[string]int64) map[string]any // extra evidence keys computed from merged counters
	Prepare         func(opt *Options) error                    // coordinator-side preparation (e.g. building an instrumented worker)
	HangIsViolation bool                                        // a unit exceeding the watchdog in 5/5 runs is a violation (totality, C07) rather than inconclusive
}

// Pass is one process-level configuration (e.g. a CPU-feature mask) under which all units are explored.
type Pass struct {
	Name string
	Env  []string
	Self string // worker binary for this pass (default: Options.Self)
}

// W is the worker-side context.
type W struct {
	Prop, Tier string
	Pass       string // name of the process-level pass (e.g. CPU mask) this worker runs under
	Seed       int64
	Store      *kf.Store
	C          map[string]int64
	known      map[int]int64
	unknown    []*Case
	nUnknown   int64
	samples    []any
	triage     *bufio.Writer
	curUnit    int
	ReplayMode bool
	Replayed   []*Case
}

const maxUnknownPerJob = 8

// Add increments a counter.
func (w *W) Add(name string, n int64) { w.C[name] += n }

// Sample records an example case for the evidence file (only the first few per job are kept).
func (w *W) Sample(s any) {
	if len(w.samples) < 2 {
		w.samples = append(w.samples, s)
	}
}

// Fail reports a failing case.
func (w *W) Fail(c *Case) {
	c.Property = w.Prop
	h := c.Hash()
	c.Key = fmt.Sprintf("%016x", h)
	if w.ReplayMode {
		w.Replayed = append(w.Replayed, c)
		return
	}
	w.C["failing_cases"]++
	if w.triage != nil {
		fmt.Fprintf(w.triage, "%016x\t%s\t%s\t%s\t%s\t%s\t%s\t%s\n", h, c.Cluster, c.Op, c.Mode, strconv.Quote(c.Pattern), c.Hay, c.Args, strconv.Quote(c.Want+" / "+c.Got))
	}
	if i := w.Store.Lookup(h); i >= 0 {
		w.known[i]++
		return
	}
	w.nUnknown++
	if len(w.unknown) < maxUnknownPerJob {
		w.unknown = append(w.unknown, c)
	}
}

type jobResult struct {
	Lo, Hi   int
	C        map[string]int64
	Known    map[int]int64
	Unknown  []*Case
	NUnknown int64
	Samples  []any
}

// WorkerMain runs the worker loop: read "lo hi" lines on stdin, execute, answer one JSON line each.
func WorkerMain(prop, tier, pass string, seed int64, plan *Plan, store *kf.Store, triagePath string) {
	debug.SetPanicOnFault(true)
	in := bufio.NewReader(os.Stdin)
	out := bufio.NewWriterSize(os.Stdout, 1<<16)
	var tw *bufio.Writer
	if triagePath != "" {
		f, err := os.OpenFile(triagePath, os.O_CREATE|os.O_WRONLY|os.O_APPEND, 0o644)
		if err != nil {
			fmt.Fprintln(os.Stderr, "triage file:", err)
			os.Exit(2)
		}
		tw = bufio.NewWriterSize(f, 1<<20)
		defer func() { tw.Flush(); f.Close() }()
	}
	for {
		line, err := in.ReadString('\n')
		if err != nil {
			if tw != nil {
				tw.Flush()
			}
			return
		}
		var lo, hi int
		if _, err := fmt.Sscanf(line, "%d %d", &lo, &hi); err != nil {
			fmt.Fprintln(os.Stderr, "worker: bad job line:", line)
			os.Exit(2)
		}
		w := &W{Prop: prop, Tier: tier, Pass: pass, Seed: seed, Store: store, C: map[string]int64{}, known: map[int]int64{}, triage: tw}
		for u := lo; u < hi; u++ {
			fmt.Fprintf(out, "U %d\n", u)
			out.Flush()
			w.curUnit = u
			runUnit(w, plan, u)
		}
		if tw != nil {
			tw.Flush()
		}
		res := jobResult{Lo: lo, Hi: hi, C: w.C, Known: w.known, Unknown: w.unknown, NUnknown: w.nUnknown, Samples: w.samples}
		b, _ := json.Marshal(res)
		out.WriteString("R ")
		out.Write(b)
		out.WriteString("\n")
		out.Flush()
	}
}

// runUnit executes one unit; a panic escaping the plan's own recovery is a failing case of the unit.
func runUnit(w *W, plan *Plan, u int) {
	defer func() {
		if r := recover(); r != nil {
			w.Fail(&Case{Op: "unit-panic", Pattern: plan.Describe(u), Hay: `""`, Got: firstLine(fmt.Sprint(r)), Want: "no panic", Cluster: "panic"})
		}
	}()
	plan.Run(w, u)
}

func firstLine(s string) string {
	if i := strings.IndexByte(s, '\n'); i >= 0 {
		s = s[:i]
	}
	if len(s) > 200 {
		s = s[:200]
	}
	return s
}

// Evidence is the evidence file.
type Evidence struct {
	PropertyID  string         `json:"property_id"`
	Tier        string         `json:"tier"`
	Seed        int64          `json:"seed"`
	Level       string         `json:"level"`
	Coverage    map[string]any `json:"coverage"`
	Assumptions []string       `json:"assumptions"`
	WallS       float64        `json:"wall_s"`
	Violations  int            `json:"violations"`
}

// Options for the coordinator.
type Options struct {
	Prop, Tier string
	Seed       int64
	Workers    int
	Root       string // /verif
	Self       string // path of the vf binary
	Triage     string // directory to write triage files into ("" = off)
	WorkerArgs []string
	Env        []string
	Quiet      bool
}

// Coordinate runs the plan over worker processes and returns the process exit code.
func Coordinate(opt Options, plan *Plan, store *kf.Store) int {
	// maintenance: a shorter dispatch budget for a spot run of a thorough tier (never set by the registered commands)
	if v, err := strconv.Atoi(os.Getenv("VF_BUDGET_S")); err == nil && v > 0 && plan.Budget > 0 {
		plan.Budget = time.Duration(v) * time.Second
	}
	start := time.Now()
	if plan.Prepare != nil {
		if err := plan.Prepare(&opt); err != nil {
			fmt.Fprintln(os.Stderr, "harness: preparation failed:", err)
			return 2
		}
	}
	if opt.Workers <= 0 {
		opt.Workers = runtime.NumCPU()
	}
	if plan.Chunk <= 0 {
		plan.Chunk = 16
	}
	if plan.UnitTimeout == 0 {
		plan.UnitTimeout = 600 * time.Second
	}
	type job struct{ lo, hi int }
	var mu sync.Mutex
	total := map[string]int64{}
	known := map[int]int64{}
	var unknown []*Case
	var nUnknown int64
	var samples []any
	unitsDone := 0
	deadlineHit := false
	passes := plan.Passes
	if len(passes) == 0 {
		passes = []Pass{{}}
	}
	for _, pass := range passes {
		popt := opt
		if pass.Self != "" {
			popt.Self = pass.Self
		}
		popt.Env = append(append([]string{}, opt.Env...), pass.Env...)
		popt.WorkerArgs = append(append([]string{}, opt.WorkerArgs...), "--pass", pass.Name)
		var queue []job
		for lo := 0; lo < plan.Units; lo += plan.Chunk {
			hi := lo + plan.Chunk
			if hi > plan.Units {
				hi = plan.Units
			}
			queue = append(queue, job{lo, hi})
		}
		// VERIF_SEED only permutes shard order (DESIGN §2.4): rotate the queue.
		if n := len(queue); n > 0 && opt.Seed != 0 {
			r := int(uint64(opt.Seed) % uint64(n))
			queue = append(queue[r:], queue[:r]...)
		}
		// maintenance (spot runs of a thorough tier under VF_BUDGET_S): start the queue at the job containing unit
		// VF_UNIT_FROM, so that a short run reaches a chosen region (e.g. the seed patterns, which come after P(N))
		if from, err := strconv.Atoi(os.Getenv("VF_UNIT_FROM")); err == nil && from > 0 {
			for i, j := range queue {
				if j.hi > from {
					queue = append(queue[i:], queue[:i]...)
					break
				}
			}
		}
		var crashed []int // units that killed a worker
		next := func() (job, bool) {
			mu.Lock()
			defer mu.Unlock()
			if plan.Budget > 0 && time.Since(start) > plan.Budget {
				if len(queue) > 0 {
					deadlineHit = true
				}
				return job{}, false
			}
			if len(queue) == 0 {
				return job{}, false
			}
			j := queue[0]
			queue = queue[1:]
			return j, true
		}
		merge := func(r *jobResult) {
			mu.Lock()
			defer mu.Unlock()
			for k, v := range r.C {
				total[k] += v
			}
			for k, v := range r.Known {
				known[k] += v
			}
			nUnknown += r.NUnknown
			if len(unknown) < 64 {
				unknown = append(unknown, r.Unknown...)
			}
			unitsDone += r.Hi - r.Lo
			if len(samples) < 3 || r.Lo == 0 {
				samples = append(samples, r.Samples...)
			}
		}
		var wg sync.WaitGroup
		for i := 0; i < opt.Workers; i++ {
			wg.Add(1)
			go func(id int) {
				defer wg.Done()
				for {
					j, ok := next()
					if !ok {
						return
					}
					// (re)start a worker for this and following jobs
					wk, err := startWorker(popt, id)
					if err != nil {
						fmt.Fprintln(os.Stderr, "harness: cannot start worker:", err)
						os.Exit(2)
					}
					for {
						res, lastUnit, err := wk.do(j.lo, j.hi, plan.UnitTimeout)
						if err != nil {
							// worker died or hung in lastUnit
							wk.kill()
							if lastUnit >= 0 {
								fmt.Fprintf(os.Stderr, "harness: worker lost in unit %d (%s): %v\n", lastUnit, plan.Describe(lastUnit), err)
							}
							mu.Lock()
							if lastUnit >= 0 {
								crashed = append(crashed, lastUnit)
								if lastUnit+1 < j.hi {
									queue = append(queue, job{lastUnit + 1, j.hi})
								}
								// units [j.lo,lastUnit) were executed but their results are lost: requeue them
								if lastUnit > j.lo {
									queue = append(queue, job{j.lo, lastUnit})
								}
							} else {
								fmt.Fprintln(os.Stderr, "harness: worker died before starting a unit:", err, wk.stderrTail())
								mu.Unlock()
								os.Exit(2)
							}
							mu.Unlock()
							break
						}
						merge(res)
						j, ok = next()
						if !ok {
							wk.close()
							return
						}
					}
				}
			}(i)
		}
		wg.Wait()
		// crashed units: re-run alone 5 times in fresh processes
		sort.Ints(crashed)
		for _, u := range crashed {
			repro := 0
			var lastErr string
			var good *jobResult
			for k := 0; k < 5; k++ {
				wk, err := startWorker(popt, 100+k)
				if err != nil {
					break
				}
				res, _, err := wk.do(u, u+1, plan.UnitTimeout)
				if err != nil {
					repro++
					lastErr = err.Error() + " " + wk.stderrTail()
					wk.kill()
					if strings.Contains(lastErr, "watchdog") && repro >= 2 {
						repro = 5 // two expiries of the generous watchdog are enough; do not spend 5 x 10 minutes
						break
					}
					continue
				}
				wk.close()
				good = res
				if repro == 0 && k >= 1 {
					break
				}
			}
			if good != nil {
				merge(good)
			}
			if repro == 5 && strings.Contains(lastErr, "watchdog") && !plan.HangIsViolation {
				// a unit that only ever exceeds the (generous) wall-clock watchdog is inconclusive for every property
				// except totality (C07): no wall-clock judgement is turned into a violation elsewhere
				fmt.Fprintf(os.Stderr, "harness: unit %d (%s) exceeded the %s watchdog in 5/5 runs; counted as not explored\n", u, plan.Describe(u), plan.UnitTimeout)
				total["units_not_explored_watchdog"]++
				deadlineHit = true
			} else if repro == 5 {
				c := &Case{Property: opt.Prop, Op: "worker-death", Mode: pass.Name, Pattern: plan.Describe(u), Hay: `""`, Want: "returns normally", Got: "process died or hung (5/5 runs)", Cluster: "crash", Extra: map[string]string{"detail": firstLine(lastErr)}}
				h := c.Hash()
				c.Key = fmt.Sprintf("%016x", h)
				total["failing_cases"]++
				if i := store.Lookup(h); i >= 0 {
					known[i]++
				} else {
					nUnknown++
					unknown = append(unknown, c)
				}
				unitsDone++
			} else if repro > 0 {
				fmt.Fprintf(os.Stderr, "harness: unit %d (%s) killed a worker %d/5 times when re-run alone; not reported as a violation (not reproducible)\n", u, plan.Describe(u), repro)
				total["flaky_worker_deaths"]++
			}
		}

	} // passes

	// report
	exit := 0
	if total["harness_errors"] > 0 {
		fmt.Printf("HARNESS ERROR: %d internal consistency failures of the checking machinery itself (see stderr of the workers); nothing is reported as a violation\n", total["harness_errors"])
		exit = 2
	}
	for i, n := range known {
		f := store.Findings[i]
		fmt.Printf("KNOWN-FINDING: property=%s %s %s (%d listed cases hit)\n", opt.Prop, f.ID, f.What, n)
	}
	repDir := filepath.Join(outRoot(opt), "replays", opt.Prop)
	if nUnknown > 0 {
		os.MkdirAll(repDir, 0o755)
		sort.Slice(unknown, func(i, j int) bool {
			a, b := unknown[i], unknown[j]
			if len(a.Pattern)+len(a.Hay) != len(b.Pattern)+len(b.Hay) {
				return len(a.Pattern)+len(a.Hay) < len(b.Pattern)+len(b.Hay)
			}
			return a.Key < b.Key
		})
		printed := 0
		for _, c := range unknown {
			if printed >= 20 {
				break
			}
			p := filepath.Join(repDir, c.Key+".json")
			b, _ := json.MarshalIndent(c, "", " ")
			os.WriteFile(p, b, 0o644)
			fmt.Printf("VIOLATION property=%s replay=%s\n", opt.Prop, p)
			if !opt.Quiet {
				fmt.Printf("  op=%s mode=%s pattern=%q haystack=%s args=%s want=%s got=%s\n", c.Op, c.Mode, c.Pattern, c.Hay, c.Args, c.Want, c.Got)
			}
			printed++
		}
		fmt.Printf("%s: %d failing cases not in the known-findings store (%d replay files written)\n", opt.Prop, nUnknown, printed)
		if exit == 0 {
			exit = 1
		}
	}
	exhaustive := !deadlineHit && unitsDone >= plan.Units*len(passes)
	cov := map[string]any{}
	for k, v := range total {
		cov[k] = v
	}
	for _, k := range []string{"evaluations", "distinct_nontrivial", "states", "transitions", "traces_validated_against_impl"} {
		if _, ok := cov[k]; !ok {
			cov[k] = int64(0)
		}
	}
	cov["rule"] = plan.Rule
	cov["exhaustive"] = exhaustive
	cov["units_total"] = plan.Units * len(passes)
	cov["units_completed"] = unitsDone
	cov["deadline_hit"] = deadlineHit
	cov["bounds"] = plan.Bounds
	cov["workers"] = opt.Workers
	cov["known_findings_hit"] = len(known)
	kh := map[string]int64{}
	for i, n := range known {
		kh[store.Findings[i].ID] = n
	}
	cov["known_finding_cases_hit"] = kh
	cov["known_cases_listed"] = store.Len()
	if len(samples) == 0 {
		samples = append(samples, "no unit completed")
	}
	if len(samples) > 6 {
		samples = append(samples[:3], samples[len(samples)-3:]...)
	}
	cov["samples"] = samples
	if len(plan.Passes) > 0 {
		var pn []string
		for _, p := range plan.Passes {
			pn = append(pn, p.Name)
		}
		cov["passes"] = pn
	}
	if plan.Extra != nil {
		for k, v := range plan.Extra(total) {
			cov[k] = v
		}
		if b, ok := cov["exhaustive"].(bool); ok && !b {
			exhaustive = false // a plan may withdraw the claim (e.g. an execution cap was hit), never add it
		}
		cov["exhaustive"] = exhaustive
	}
	ev := Evidence{PropertyID: opt.Prop, Tier: opt.Tier, Seed: opt.Seed, Level: plan.Level, Coverage: cov,
		Assumptions: plan.Assume, WallS: time.Since(start).Seconds(), Violations: int(nUnknown)}
	if ev.Assumptions == nil {
		ev.Assumptions = []string{}
	}
	os.MkdirAll(filepath.Join(outRoot(opt), "evidence"), 0o755)
	b, _ := json.MarshalIndent(ev, "", " ")
	if err := os.WriteFile(filepath.Join(outRoot(opt), "evidence", opt.Prop+".json"), b, 0o644); err != nil {
		fmt.Fprintln(os.Stderr, "harness: cannot write evidence:", err)
		return 2
	}
	if !opt.Quiet {
		fmt.Printf("%s tier=%s units=%d/%d evaluations=%d nontrivial=%d failing=%d unknown=%d exhaustive=%v wall=%.1fs\n",
			opt.Prop, opt.Tier, unitsDone, plan.Units*len(passes), total["evaluations"], total["distinct_nontrivial"], total["failing_cases"], nUnknown, exhaustive, time.Since(start).Seconds())
	}
	return exit
}

type worker struct {
	cmd    *exec.Cmd
	in     io.WriteCloser
	out    *bufio.Reader
	errBuf *tailBuf
	lines  chan string
}

type tailBuf struct {
	mu sync.Mutex
	b  []byte
}

func (t *tailBuf) Write(p []byte) (int, error) {
	t.mu.Lock()
	defer t.mu.Unlock()
	t.b = append(t.b, p...)
	if len(t.b) > 8192 {
		t.b = t.b[len(t.b)-8192:]
	}
	return len(p), nil
}

func startWorker(opt Options, id int) (*worker, error) {
	args := []string{"worker", opt.Prop, "--tier", opt.Tier, "--seed", strconv.FormatInt(opt.Seed, 10)}
	if opt.Triage != "" {
		args = append(args, "--triage", filepath.Join(opt.Triage, fmt.Sprintf("w%03d.tsv", id)))
	}
	args = append(args, opt.WorkerArgs...)
	cmd := exec.Command(opt.Self, args...)
	cmd.Env = append(os.Environ(), "GOMAXPROCS=1", "GOTRACEBACK=single")
	cmd.Env = append(cmd.Env, opt.Env...)
	in, err := cmd.StdinPipe()
	if err != nil {
		return nil, err
	}
	outp, err := cmd.StdoutPipe()
	if err != nil {
		return nil, err
	}
	tb := &tailBuf{}
	cmd.Stderr = tb
	if err := cmd.Start(); err != nil {
		return nil, err
	}
	w := &worker{cmd: cmd, in: in, out: bufio.NewReaderSize(outp, 1<<20), errBuf: tb, lines: make(chan string, 64)}
	go func() {
		for {
			l, err := w.out.ReadString('\n')
			if err != nil {
				close(w.lines)
				return
			}
			w.lines <- l
		}
	}()
	return w, nil
}

func (w *worker) stderrTail() string {
	w.errBuf.mu.Lock()
	defer w.errBuf.mu.Unlock()
	s := string(w.errBuf.b)
	if len(s) > 1500 {
		s = s[:1500]
	}
	return s
}

// do sends one job and waits for its result; on death/hang returns the unit in flight.
func (w *worker) do(lo, hi int, unitTimeout time.Duration) (*jobResult, int, error) {
	if _, err := fmt.Fprintf(w.in, "%d %d\n", lo, hi); err != nil {
		return nil, lo, fmt.Errorf("write to worker: %w", err)
	}
	last := -1
	timer := time.NewTimer(unitTimeout)
	defer timer.Stop()
	for {
		select {
		case l, ok := <-w.lines:
			if !ok {
				return nil, last, fmt.Errorf("worker exited")
			}
			if strings.HasPrefix(l, "U ") {
				last, _ = strconv.Atoi(strings.TrimSpace(l[2:]))
				if !timer.Stop() {
					select {
					case <-timer.C:
					default:
					}
				}
				timer.Reset(unitTimeout)
				continue
			}
			if strings.HasPrefix(l, "R ") {
				var r jobResult
				if err := json.Unmarshal([]byte(l[2:]), &r); err != nil {
					return nil, last, fmt.Errorf("bad result line: %w", err)
				}
				return &r, last, nil
			}
			// other output from library code (debug prints): ignore
		case <-timer.C:
			return nil, last, fmt.Errorf("unit exceeded the %s watchdog", unitTimeout)
		}
	}
}

func (w *worker) kill() {
	w.cmd.Process.Kill()
	w.cmd.Wait()
}

func (w *worker) close() {
	w.in.Close()
	done := make(chan struct{})
	go func() { w.cmd.Wait(); close(done) }()
	select {
	case <-done:
	case <-time.After(10 * time.Second):
		w.cmd.Process.Kill()
	}
}

// outRoot is where evidence and replay files go: the framework root, or VF_OUT for maintenance runs against a
// deliberately changed tree (so that they never overwrite the evidence of the registered checks).
func outRoot(opt Options) string {
	if o := os.Getenv("VF_OUT"); o != "" {
		return o
	}
	return opt.Root
}
