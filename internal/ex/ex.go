// Package ex drives each matching engine directly (DESIGN §3 C14): PikeVM through all entry points, the bounded
// backtracker, the lazy DFA in forward / anchored / earliest / reverse modes under every cache configuration within
// a deviation bound (fresh and reused caches), and the one-pass DFA — on every pattern, haystack and start offset
// of the bounded space — and compares with the reference matcher (or accepts the engine's documented decline).
package ex

import (
	"fmt"
	"hash/fnv"
	"os"
	"regexp"
	"regexp/syntax"
	"strconv"
	"strings"
	"time"
	"unicode/utf8"

	"github.com/coregx/coregex/dfa/lazy"
	"github.com/coregx/coregex/dfa/onepass"
	"github.com/coregx/coregex/nfa"

	"verif/internal/bx"
	"verif/internal/harness"
	"verif/internal/refre"
	"verif/internal/space"
)

type lazyCfg struct {
	name string
	cfg  lazy.Config
}

func lazyConfigs(thorough bool) []lazyCfg {
	def := lazy.DefaultConfig()
	out := []lazyCfg{{"default", def}}
	add := func(name string, f func(*lazy.Config)) {
		c := def
		f(&c)
		out = append(out, lazyCfg{name, c})
	}
	if !thorough {
		add("cap=1", func(c *lazy.Config) { c.CacheCapacityBytes = 1 })
		add("cap=256", func(c *lazy.Config) { c.CacheCapacityBytes = 256 })
		add("cap=64,clears=0", func(c *lazy.Config) { c.CacheCapacityBytes = 64; c.MaxCacheClears = 0 })
		add("detlimit=1", func(c *lazy.Config) { c.DeterminizationLimit = 1 })
		return out
	}
	for _, cap := range []int{1, 64, 256, 1024} {
		cap := cap
		add(fmt.Sprintf("cap=%d", cap), func(c *lazy.Config) { c.CacheCapacityBytes = cap })
		for _, cl := range []int{0, 1} {
			cl := cl
			add(fmt.Sprintf("cap=%d,clears=%d", cap, cl), func(c *lazy.Config) { c.CacheCapacityBytes = cap; c.MaxCacheClears = cl })
		}
	}
	add("clears=0", func(c *lazy.Config) { c.MaxCacheClears = 0 })
	for _, dl := range []int{1, 2, 4} {
		dl := dl
		add(fmt.Sprintf("detlimit=%d", dl), func(c *lazy.Config) { c.DeterminizationLimit = dl })
	}
	return out
}

type ectx struct {
	w    *harness.W
	pat  string
	look bool
	ref  *refre.Prog
	std  *regexp.Regexp
	h    []byte
	eval int64
	nref int64
	pend []string
	fams string
}

func (c *ectx) fail(engine, op, args string, want, got any) {
	e := engine + "." + op
	if args != "" {
		e += "[" + args + "]"
	}
	c.pend = append(c.pend, e+": want "+bx.Show(want)+" got "+bx.Show(got))
	fam := engine
	if i := strings.IndexByte(fam, '('); i >= 0 {
		fam = fam[:i]
	}
	if !strings.Contains(c.fams, fam) {
		c.fams += fam + " "
	}
}

// flush reports all failing engine calls on the current haystack as ONE case whose identity covers the complete
// list (a digest of it is part of the recorded result), so any additional, missing or different wrong answer on
// this (pattern, haystack) is a different case.
func (c *ectx) flush() {
	if len(c.pend) == 0 {
		return
	}
	d := fnv.New64a()
	for _, e := range c.pend {
		d.Write([]byte(e))
		d.Write([]byte{0})
	}
	show := c.pend
	if len(show) > 6 {
		show = show[:6]
	}
	cl := strings.TrimSpace(c.fams)
	if c.look {
		cl += " +look"
	}
	c.w.C["failing_evaluations"] += int64(len(c.pend))
	c.w.Fail(&harness.Case{Op: "engines", Mode: "engine", Pattern: c.pat, Hay: strconv.Quote(string(c.h)), Want: "every engine call equals the reference or declines",
		Got: fmt.Sprintf("%d wrong engine calls (digest %016x): %s", len(c.pend), d.Sum64(), strings.Join(show, "; ")), Cluster: cl})
	c.pend = c.pend[:0]
	c.fams = ""
}

func (c *ectx) guard(engine, op, args string, f func()) {
	defer func() {
		if r := recover(); r != nil {
			s := fmt.Sprint(r)
			if i := strings.IndexByte(s, '\n'); i >= 0 {
				s = s[:i]
			}
			c.fail(engine, op, args, "no panic", "panic: "+s)
		}
	}()
	f()
	c.eval++
}

func span(s, e int, ok bool) []int {
	if !ok {
		return nil
	}
	return []int{s, e}
}

func eq(a, b []int) bool {
	if (a == nil) != (b == nil) || len(a) != len(b) {
		return false
	}
	for i := range a {
		if a[i] != b[i] {
			return false
		}
	}
	return true
}

func capsOf(m *nfa.MatchWithCaptures) []int {
	if m == nil {
		return nil
	}
	out := make([]int, 0, 2*len(m.Captures))
	for _, g := range m.Captures {
		if g == nil {
			out = append(out, -1, -1)
		} else {
			out = append(out, g[0], g[1])
		}
	}
	return out
}

func hasLook(re *syntax.Regexp) bool {
	switch re.Op {
	case syntax.OpBeginLine, syntax.OpEndLine, syntax.OpBeginText, syntax.OpEndText, syntax.OpWordBoundary, syntax.OpNoWordBoundary:
		return true
	}
	for _, s := range re.Sub {
		if hasLook(s) {
			return true
		}
	}
	return false
}

func runeStarts(h []byte) []int {
	var out []int
	for i := 0; i < len(h); {
		out = append(out, i)
		_, w := utf8.DecodeRune(h[i:])
		i += w
	}
	return append(out, len(h))
}

// Plan builds the C14 plan.
func Plan(tier string) *harness.Plan {
	thorough := tier == "thorough"
	t := bx.Tier{PN: 3, SK: 0, LASCII: 3, LUTF8: 2, LRaw: 2, EmbedW: -1, TokL: 3, TokN: 5, SeedEmbW: -1, SeedEmbFirst: 1000, SeedTokL: 4, SeedTokN: 6, Budget: 150 * time.Second}
	if thorough {
		// plus the one-edit seed neighbourhoods on their token words (a superset of the quick space), under the larger
		// configuration list. (Every 4-node pattern was tried and dropped: a quarter of all (pattern, haystack) pairs
		// hits one of the open engine-contract findings of §10.4, which made the known-finding set 4 million cases.)
		t.SK, t.LateSKDelta, t.SeedEmbFirst, t.Budget = 1, 1, len(space.Seeds), 25*time.Minute
	}
	sp := bx.NewSpace(t)
	cfgs := lazyConfigs(thorough)
	run := func(w *harness.W, u int) {
		p := sp.Pats[u]
		std, err := regexp.Compile(p)
		if err != nil {
			return
		}
		re, _ := syntax.Parse(p, syntax.Perl)
		ref, err := refre.Compile(p, syntax.Perl)
		if err != nil {
			panic("refre: " + err.Error())
		}
		stdL := regexp.MustCompile(p)
		stdL.Longest()
		c := &ectx{w: w, pat: p, look: hasLook(re), ref: ref, std: std}
		mk := func(cfg nfa.CompilerConfig) *nfa.NFA {
			cfg.MaxRecursionDepth = 100
			n, err := nfa.NewCompiler(cfg).CompileRegexp(re)
			if err != nil {
				return nil
			}
			return n
		}
		n := mk(nfa.CompilerConfig{UTF8: true})
		if n == nil {
			w.C["patterns_not_compiled_by_nfa"]++
			return
		}
		nRune := mk(nfa.CompilerConfig{UTF8: true, UseRuneStates: true})
		nASCII := mk(nfa.CompilerConfig{UTF8: true, ASCIIOnly: true})
		nAnch := mk(nfa.CompilerConfig{UTF8: true, Anchored: true})
		vm := nfa.NewPikeVM(n)
		vmLazy := nfa.NewPikeVMLazy(n)
		var vmRune, vmASCII *nfa.PikeVM
		if nRune != nil {
			vmRune = nfa.NewPikeVM(nRune)
		}
		if nASCII != nil {
			vmASCII = nfa.NewPikeVM(nASCII)
		}
		vmLong := nfa.NewPikeVM(n)
		vmLong.SetLongest(true)
		bt := nfa.NewBoundedBacktracker(n)
		btSmall := nfa.NewBoundedBacktrackerSmall(n)
		btLong := nfa.NewBoundedBacktracker(n)
		btLong.SetLongest(true)
		st, stS, stL := nfa.NewBacktrackerState(), nfa.NewBacktrackerState(), nfa.NewBacktrackerState()
		stL.Longest = true
		type ldfa struct {
			name  string
			d     *lazy.DFA
			cache *lazy.DFACache // reused across haystacks
			rev   *lazy.DFA
			rc    *lazy.DFACache
		}
		var dfas []ldfa
		for _, lc := range cfgs {
			d, err := lazy.CompileWithConfig(n, lc.cfg)
			if err != nil {
				w.C["lazy_compile_declined"]++
				continue
			}
			rc := lc.cfg
			rc.BreakAtMatch = false
			x := ldfa{name: lc.name, d: d, cache: d.NewCache()}
			if rd, err := lazy.CompileWithConfig(nfa.ReverseAnchored(n), rc); err == nil {
				x.rev, x.rc = rd, rd.NewCache()
			}
			dfas = append(dfas, x)
		}
		var op *onepass.DFA
		var opCache *onepass.Cache
		if nAnch != nil {
			d, err := onepass.Build(nAnch)
			isOP := onepass.IsOnePass(nAnch)
			if (err == nil) != isOP {
				c.h = nil
				c.fail("onepass", "IsOnePass", "", err == nil, isOP)
				c.flush()
			}
			if err == nil {
				op, opCache = d, onepass.NewCache(d.NumCaptures())
				w.C["onepass_programs"]++
			}
		}
		hs := sp.Haystacks(u)
		nt := int64(0)
		for _, h := range hs {
			c.h = h
			valid := utf8.Valid(h)
			ascii := true
			for _, b := range h {
				if b >= 0x80 {
					ascii = false
				}
			}
			// validate the reference against package regexp on this input (offset 0, both modes, and every resume
			// offset through the FindAll identity)
			m0 := ref.FindAt(h, 0, false)
			if !eq(m0, std.FindSubmatchIndex(h)) || !eq2(ref.FindAll(h, -1, false), std.FindAllSubmatchIndex(h, -1)) {
				w.C["harness_errors"]++
				fmt.Fprintf(os.Stderr, "HARNESS: refre disagrees with regexp: pattern %q haystack %q: %v vs %v\n", p, h, m0, std.FindSubmatchIndex(h))
				continue
			}
			if ml := ref.FindAt(h, 0, true); !eq(first2(ml), stdL.FindIndex(h)) {
				w.C["harness_errors"]++
				fmt.Fprintf(os.Stderr, "HARNESS: refre (longest) disagrees with regexp: pattern %q haystack %q: %v vs %v\n", p, h, ml, stdL.FindIndex(h))
				continue
			}
			c.nref += 3
			if m0 != nil {
				nt++
			}
			starts := runeStarts(h)
			if !valid {
				starts = []int{0} // ill-formed input: offset 0 only (byte offsets inside broken sequences have no reference)
			}
			for _, at := range starts {
				a := "at=" + strconv.Itoa(at)
				want := ref.FindAt(h, at, false)
				wantSpan := first2(want)
				wantLong := first2(ref.FindAt(h, at, true))
				// ---- PikeVM
				for _, pv := range []struct {
					name string
					vm   *nfa.PikeVM
					ok   bool
				}{{"PikeVM", vm, true}, {"PikeVM(lazy-init)", vmLazy, true}, {"PikeVM(rune-states)", vmRune, vmRune != nil}, {"PikeVM(ascii-only)", vmASCII, vmASCII != nil && ascii}} {
					if !pv.ok {
						continue
					}
					v := pv.vm
					c.guard(pv.name, "SearchAt", a, func() {
						if got := span(v.SearchAt(h, at)); !eq(got, wantSpan) {
							c.fail(pv.name, "SearchAt", a, wantSpan, got)
						}
					})
					if at == 0 {
						c.guard(pv.name, "Search", a, func() {
							if got := span(v.Search(h)); !eq(got, wantSpan) {
								c.fail(pv.name, "Search", a, wantSpan, got)
							}
							if got := v.IsMatch(h); got != (want != nil) {
								c.fail(pv.name, "IsMatch", a, want != nil, got)
							}
						})
					}
					for mi, mode := range []nfa.SearchMode{nfa.SearchModeIsMatch, nfa.SearchModeFind, nfa.SearchModeCaptures} {
						mode := mode
						c.guard(pv.name, "SearchWithSlotTableAt", a, func() {
							s, e, ok := v.SearchWithSlotTableAt(h, at, mode)
							if ok != (want != nil) || (ok && mi > 0 && !eq([]int{s, e}, wantSpan)) {
								c.fail(pv.name, fmt.Sprintf("SearchWithSlotTableAt(mode=%d)", mi), a, wantSpan, span(s, e, ok))
							}
						})
					}
					if pv.name != "PikeVM" {
						continue
					}
					c.guard(pv.name, "SearchWithCapturesAt", a, func() {
						if got := capsOf(v.SearchWithCapturesAt(h, at)); !eq(got, want) {
							c.fail(pv.name, "SearchWithCapturesAt", a, want, got)
						}
						if got := capsOf(v.SearchWithSlotTableCapturesAt(h, at)); !eq(got, want) {
							c.fail(pv.name, "SearchWithSlotTableCapturesAt", a, want, got)
						}
					})
					if want != nil {
						c.guard(pv.name, "SearchBetween", a, func() {
							if got := span(v.SearchBetween(h, at, want[1])); !eq(got, wantSpan) && want[1] > at {
								c.fail(pv.name, "SearchBetween(at,end)", a, wantSpan, got)
							}
						})
						c.guard(pv.name, "SearchWithCapturesInSpan", a, func() {
							if got := capsOf(v.SearchWithCapturesInSpan(h, want[0], want[1])); !eq(got, want) {
								c.fail(pv.name, "SearchWithCapturesInSpan", fmt.Sprintf("span=[%d,%d]", want[0], want[1]), want, got)
							}
						})
					}
					c.guard("PikeVM(longest)", "SearchAt", a, func() {
						if got := span(vmLong.SearchAt(h, at)); !eq(got, wantLong) {
							c.fail("PikeVM(longest)", "SearchAt", a, wantLong, got)
						}
					})
				}
				// ---- bounded backtracker
				for _, bb := range []struct {
					name string
					b    *nfa.BoundedBacktracker
					s    *nfa.BacktrackerState
					want []int
				}{{"Backtracker", bt, st, wantSpan}, {"Backtracker(small)", btSmall, stS, wantSpan}, {"Backtracker(longest)", btLong, stL, wantLong}} {
					bb := bb
					if !bb.b.CanHandle(len(h)) {
						w.C["backtracker_declined"]++
						continue
					}
					c.guard(bb.name, "SearchAtWithState", a, func() {
						if got := span(bb.b.SearchAtWithState(h, at, bb.s)); !eq(got, bb.want) {
							c.fail(bb.name, "SearchAtWithState", a, bb.want, got)
						}
					})
					if at == 0 {
						c.guard(bb.name, "IsMatchWithState", a, func() {
							if got := bb.b.IsMatchWithState(h, bb.s); got != (want != nil) {
								c.fail(bb.name, "IsMatchWithState", a, want != nil, got)
							}
							wantA := len(ref.AllEnds(h, 0)) > 0
							if got := bb.b.IsMatchAnchoredWithState(h, bb.s); got != wantA {
								c.fail(bb.name, "IsMatchAnchoredWithState", a, wantA, got)
							}
						})
					}
				}
				// ---- lazy DFA, every configuration, reused cache then fresh cache
				wantEnd := -1
				if want != nil {
					wantEnd = want[1]
				}
				ends := ref.AllEnds(h, at)
				wantAnch := -1
				if ma := ref.FindAtAnchored(h, at); ma != nil {
					wantAnch = ma[1]
				}
				for _, x := range dfas {
					for ci, cache := range []*lazy.DFACache{x.cache, nil} {
						cn := x.name + "/reused-cache"
						if ci == 1 {
							cache = x.d.NewCache()
							cn = x.name + "/fresh-cache"
						}
						eng := "lazyDFA(" + x.name + ")"
						c.guard(eng, "SearchAt", a+" "+cn, func() {
							if got := x.d.SearchAt(cache, h, at); got != wantEnd {
								c.fail(eng, "SearchAt", a+" "+cn, wantEnd, got)
							}
							if got := x.d.FindAt(cache, h, at); got != wantEnd {
								c.fail(eng, "FindAt", a+" "+cn, wantEnd, got)
							}
							if got := x.d.IsMatchAt(cache, h, at); got != (want != nil) {
								c.fail(eng, "IsMatchAt", a+" "+cn, want != nil, got)
							}
							if got := x.d.SearchAtAnchored(cache, h, at); got != wantAnch {
								c.fail(eng, "SearchAtAnchored", a+" "+cn, wantAnch, got)
							}
							// earliest match: the smallest end of any match span starting at or after `at`
							// (or, equally acceptable, of a span starting at the leftmost match start)
							got := x.d.SearchFirstAt(cache, h, at)
							okEarliest := got == -1 && want == nil
							if want != nil && got >= 0 {
								okEarliest = c.isSomeEnd(h, at, got)
							}
							if !okEarliest {
								c.fail(eng, "SearchFirstAt", a+" "+cn, fmt.Sprintf("an end of a match starting >= %d (leftmost-first end %d)", at, wantEnd), got)
							}
							if at == 0 {
								if got := x.d.Find(cache, h); got != wantEnd {
									c.fail(eng, "Find", a+" "+cn, wantEnd, got)
								}
								if got := x.d.IsMatch(cache, h); got != (want != nil) {
									c.fail(eng, "IsMatch", a+" "+cn, want != nil, got)
								}
							}
						})
						_ = ends
					}
					// ---- reverse DFA over ReverseAnchored (BreakAtMatch=false): for every end e of a match span starting
					// at or after `at`, the least s in [at, e] with (s, e) a match span
					if x.rev != nil {
						eng := "reverseDFA(" + x.name + ")"
						for e := at; e <= len(h); e++ {
							wantS := -1
							for s := at; s <= e; s++ {
								if ref.MatchSpan(h, s, e) {
									wantS = s
									break
								}
							}
							if e == at {
								continue // SearchReverse requires end > start
							}
							e := e
							c.guard(eng, "SearchReverse", fmt.Sprintf("start=%d end=%d", at, e), func() {
								if got := x.rev.SearchReverse(x.rc, h, at, e); got != wantS {
									c.fail(eng, "SearchReverse", fmt.Sprintf("start=%d end=%d", at, e), wantS, got)
								}
								if got := x.rev.IsMatchReverse(x.rc, h, at, e); got != (wantS >= 0) {
									c.fail(eng, "IsMatchReverse", fmt.Sprintf("start=%d end=%d", at, e), wantS >= 0, got)
								}
								for ms := at; ms <= e; ms++ {
									got := x.rev.SearchReverseLimited(x.rc, h, at, e, ms)
									if got != wantS && got != lazy.SearchReverseLimitedQuadratic {
										c.fail(eng, "SearchReverseLimited", fmt.Sprintf("start=%d end=%d minStart=%d", at, e, ms), wantS, got)
									}
								}
							})
						}
					}
				}
			}
			// ---- one-pass DFA (anchored at 0)
			if op != nil {
				wantOP := ref.FindAtAnchored(h, 0)
				c.guard("onepass", "Search", "", func() {
					got := op.Search(h, opCache)
					var g []int
					if got != nil {
						g = append([]int(nil), got...)
					}
					if !eq(g, wantOP) {
						c.fail("onepass", "Search", "", wantOP, g)
					}
					if gm := op.IsMatch(h); gm != (wantOP != nil) {
						c.fail("onepass", "IsMatch", "", wantOP != nil, gm)
					}
				})
			}
			c.flush()
		}
		w.C["programs"]++
		w.C["states"] += int64(len(hs))
		w.C["evaluations"] += c.eval
		w.C["transitions"] += c.eval
		w.C["traces_validated_against_impl"] += c.nref
		w.C["distinct_nontrivial"] += nt
		if u%211 == 0 {
			w.Sample(map[string]any{"pattern": p, "haystacks": len(hs), "lazy_dfa_configs": len(dfas), "onepass": op != nil, "engine_calls": c.eval, "reference_validations_against_regexp": c.nref})
		}
	}
	var cn []string
	for _, c := range cfgs {
		cn = append(cn, c.name)
	}
	b := sp.Bounds()
	b["lazy_dfa_configs"] = cn
	return &harness.Plan{
		Units: len(sp.Pats), Chunk: 8, Run: run,
		Describe: func(u int) string { return fmt.Sprintf("pattern %q", sp.Pats[u]) },
		Replay: func(w *harness.W, c *harness.Case) {
			for u, p := range sp.Pats {
				if p == c.Pattern {
					run(w, u)
					return
				}
			}
		},
		Rule:   "Every pattern AST up to N nodes (and seeds), every haystack up to L symbols, every rune-boundary start offset (offset 0 only on ill-formed input): nfa.PikeVM (eager, lazily initialised, rune-state NFA, ASCII-only NFA on ASCII input, longest mode) through Search, SearchAt, IsMatch, SearchBetween, SearchWithCaptures(At), SearchWithSlotTable(At) in the three modes, SearchWithSlotTableCaptures(At), SearchWithCapturesInSpan; nfa.BoundedBacktracker (both size caps, first and longest) through IsMatchWithState, IsMatchAnchoredWithState, SearchAtWithState (CanHandle==false is a decline); lazy.DFA forward (BreakAtMatch as the library builds it) through Find, FindAt, SearchAt, SearchAtAnchored, SearchFirstAt, IsMatch, IsMatchAt and reverse (ReverseAnchored NFA) through SearchReverse, IsMatchReverse, SearchReverseLimited at every minStart (the quadratic signal is a decline), for every cache configuration listed, on a cache reused across all inputs and on a fresh cache; onepass.DFA Search/IsMatch when Build succeeds (IsOnePass must agree with Build). Oracle: the reference matcher refre, itself compared with package regexp on every input at offset 0 in both modes and at every resume offset through FindAll (a disagreement aborts the check as a harness error). states = (program, haystack) pairs; transitions = engine calls; traces_validated_against_impl = reference-vs-regexp validations; non-trivial = the reference finds a match.",
		Level:  "model_checking",
		Bounds: b, Budget: t.Budget,
		Assume: []string{"start offsets inside a multi-byte sequence and offsets > 0 on ill-formed input are not explored (no reference)", "SearchFirstAt (earliest match) is accepted when it returns the end of any match span starting at or after the offset", "refre is the trusted reference after its validation against package regexp"},
	}
}

func first2(m []int) []int {
	if m == nil {
		return nil
	}
	return m[:2:2]
}

func eq2(a, b [][]int) bool {
	if len(a) != len(b) {
		return false
	}
	for i := range a {
		if !eq(a[i], b[i]) {
			return false
		}
	}
	return true
}

// isSomeEnd: e is the end of a match span (s, e) with s >= at.
func (c *ectx) isSomeEnd(h []byte, at, e int) bool {
	for s := at; s <= e; s++ {
		if c.ref.MatchSpan(h, s, e) {
			return true
		}
	}
	return false
}
