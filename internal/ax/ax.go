// Package ax walks compiled byte automata exhaustively (DESIGN §3 C15): for every class / literal / dot program and
// every compiler mode it runs an independent anchored simulator over the compiled NFA itself on the UTF-8 encoding
// of every code point, on every byte string of length <= 2 and on boundary byte strings of length 3-4, and
// compares acceptance with package regexp (membership derived from regexp/syntax's own class tables for the
// full code-point sweep, regexp.Match for byte strings).
package ax

import (
	"fmt"
	"regexp"
	"regexp/syntax"
	"sort"
	"strconv"
	"strings"
	"time"
	"unicode"
	"unicode/utf8"

	"github.com/coregx/coregex"
	"github.com/coregx/coregex/nfa"

	"verif/internal/harness"
)

// sim is an anchored full-match simulator over the exported NFA accessors (independent of PikeVM).
type sim struct {
	n     *nfa.NFA
	sets  [][]nfa.StateID // per position
	mark  []int           // state -> last position+1 it was added at (per run generation)
	gen   int
	stack []nfa.StateID
	bad   string
}

func newSim(n *nfa.NFA) *sim {
	return &sim{n: n, mark: make([]int, n.States())}
}

func (s *sim) add(pos int, id nfa.StateID, b []byte) {
	// epsilon closure into sets[pos]
	s.stack = append(s.stack[:0], id)
	for len(s.stack) > 0 {
		id := s.stack[len(s.stack)-1]
		s.stack = s.stack[:len(s.stack)-1]
		if id == nfa.InvalidState || int(id) >= len(s.mark) {
			continue
		}
		key := s.gen*(len(b)+2) + pos + 1
		if s.mark[id] == key {
			continue
		}
		s.mark[id] = key
		st := s.n.State(id)
		switch st.Kind() {
		case nfa.StateEpsilon:
			s.stack = append(s.stack, st.Epsilon())
		case nfa.StateSplit:
			l, r := st.Split()
			s.stack = append(s.stack, r, l)
		case nfa.StateCapture:
			_, _, next := st.Capture()
			s.stack = append(s.stack, next)
		case nfa.StateLook:
			s.bad = "look state in a class program"
		case nfa.StateFail:
		default:
			s.sets[pos] = append(s.sets[pos], id)
		}
	}
}

// accepts reports whether the automaton, started at its anchored start, accepts exactly b.
func (s *sim) accepts(b []byte) bool {
	s.gen++
	if s.gen > 1<<20 {
		s.gen = 1
		for i := range s.mark {
			s.mark[i] = 0
		}
	}
	if cap(s.sets) < len(b)+1 {
		s.sets = make([][]nfa.StateID, len(b)+1)
	}
	s.sets = s.sets[:len(b)+1]
	for i := range s.sets {
		s.sets[i] = s.sets[i][:0]
	}
	s.add(0, s.n.StartAnchored(), b)
	for pos := 0; pos <= len(b); pos++ {
		for i := 0; i < len(s.sets[pos]); i++ {
			st := s.n.State(s.sets[pos][i])
			switch st.Kind() {
			case nfa.StateMatch:
				if pos == len(b) {
					return true
				}
			case nfa.StateByteRange:
				if pos < len(b) {
					lo, hi, next := st.ByteRange()
					if b[pos] >= lo && b[pos] <= hi {
						s.add(pos+1, next, b)
					}
				}
			case nfa.StateSparse:
				if pos < len(b) {
					for _, t := range st.Transitions() {
						if b[pos] >= t.Lo && b[pos] <= t.Hi {
							s.add(pos+1, t.Next, b)
						}
					}
				}
			case nfa.StateRuneAny, nfa.StateRuneAnyNotNL:
				if pos < len(b) {
					r, w := utf8.DecodeRune(b[pos:])
					if st.Kind() == nfa.StateRuneAny {
						s.add(pos+w, st.RuneAny(), b)
					} else if r != '\n' {
						s.add(pos+w, st.RuneAnyNotNL(), b)
					}
				}
			}
		}
	}
	return false
}

func got2(s *sim, b []byte) bool { return s.accepts(b) }

// dump serialises the automaton through the exported accessors (structure only).
func dump(n *nfa.NFA) string {
	var sb strings.Builder
	fmt.Fprintf(&sb, "start=%d n=%d;", n.StartAnchored(), n.States())
	for i := 0; i < n.States(); i++ {
		st := n.State(nfa.StateID(i))
		fmt.Fprintf(&sb, "%d:%d", i, st.Kind())
		switch st.Kind() {
		case nfa.StateEpsilon:
			fmt.Fprintf(&sb, ">%d", st.Epsilon())
		case nfa.StateSplit:
			l, r := st.Split()
			fmt.Fprintf(&sb, ">%d,%d", l, r)
		case nfa.StateCapture:
			a, b, next := st.Capture()
			fmt.Fprintf(&sb, "c%v,%v>%d", a, b, next)
		case nfa.StateByteRange:
			lo, hi, next := st.ByteRange()
			fmt.Fprintf(&sb, "[%x-%x]>%d", lo, hi, next)
		case nfa.StateSparse:
			for _, t := range st.Transitions() {
				fmt.Fprintf(&sb, "[%x-%x]>%d", t.Lo, t.Hi, t.Next)
			}
		case nfa.StateRuneAny:
			fmt.Fprintf(&sb, ">%d", st.RuneAny())
		case nfa.StateRuneAnyNotNL:
			fmt.Fprintf(&sb, ">%d", st.RuneAnyNotNL())
		}
		sb.WriteByte(';')
	}
	return sb.String()
}

// reused holds, per compilation mode, ONE nfa.Compiler per worker process on which every program of the worker's
// units is compiled as well (twice in a row), after everything compiled before: the compiled automaton must be a
// function of the program, not of what the Compiler value was used for earlier (nfa.Compiler is an exported type).
var reused []*nfa.Compiler

type prog struct {
	src  string // the class / literal / dot source `c`
	kind string
	full bool // sweep every code point (classes, dot); false: orbit/boundary runes only (literals)
}

var boundaryRunes = []rune{0, 1, 0x09, 0x0A, 0x0B, 0x7E, 0x7F, 0x80, 0x81, 0xFF, 0x100, 0x7FE, 0x7FF, 0x800, 0x801, 0xFFF, 0x1000, 0xCFFF, 0xD000, 0xD7FE, 0xD7FF, 0xE000, 0xE001, 0xFFFD, 0xFFFE, 0xFFFF, 0x10000, 0x10001, 0x3FFFF, 0x40000, 0xFFFFF, 0x100000, 0x10FFFE, 0x10FFFF}

var boundaryBytes = []byte{0x00, 0x0A, 0x7F, 0x80, 0x8F, 0x90, 0x9F, 0xA0, 0xBF, 0xC0, 0xC1, 0xC2, 0xDF, 0xE0, 0xE1, 0xEC, 0xED, 0xEE, 0xEF, 0xF0, 0xF1, 0xF3, 0xF4, 0xF5, 0xFF}

func programs(thorough bool) []prog {
	var ps []prog
	add := func(kind string, full bool, srcs ...string) {
		for _, s := range srcs {
			ps = append(ps, prog{s, kind, full})
		}
	}
	add("dot", true, `.`, `(?s:.)`)
	add("perl", true, `\d`, `\D`, `\s`, `\S`, `\w`, `\W`)
	for _, n := range []string{"alnum", "alpha", "ascii", "blank", "cntrl", "digit", "graph", "lower", "print", "punct", "space", "upper", "word", "xdigit"} {
		add("posix", true, "[[:"+n+":]]", "[[:^"+n+":]]")
	}
	var tables []string
	for k := range unicode.Categories {
		tables = append(tables, k)
	}
	for k := range unicode.Scripts {
		tables = append(tables, k)
	}
	sort.Strings(tables)
	if !thorough {
		tables = []string{"L", "Lu", "M", "N", "Nd", "P", "S", "Z", "Greek", "Han", "Latin", "Common"}
	}
	for _, t := range tables {
		add("unicode", true, `\p{`+t+`}`, `\P{`+t+`}`)
	}
	// ranges over the encoding boundaries
	bs := []rune{0, 0x7F, 0x80, 0x7FF, 0x800, 0xD7FF, 0xE000, 0xFFFF, 0x10000, 0x10FFFF}
	var pts []rune
	seen := map[rune]bool{}
	for _, b := range bs {
		for _, d := range []rune{-1, 0, 1} {
			r := b + d
			if r < 0 || r > 0x10FFFF || seen[r] || (r >= 0xD800 && r <= 0xDFFF) {
				continue
			}
			if !thorough && (d != 0 || b == 0xD7FF || b == 0xE000) {
				continue
			}
			seen[r] = true
			pts = append(pts, r)
		}
	}
	sort.Slice(pts, func(i, j int) bool { return pts[i] < pts[j] })
	for i, x := range pts {
		for _, y := range pts[i:] {
			add("range", true, fmt.Sprintf(`[\x{%X}-\x{%X}]`, x, y), fmt.Sprintf(`[^\x{%X}-\x{%X}]`, x, y))
		}
	}
	add("class", true, `[ab]`, `[^a]`, `[^\n]`, `[a-zα-ωА-я]`, `[^a-zα-ωА-я]`, `[\x{80}-\x{10FFFF}]`, `[^\x{80}-\x{10FFFF}]`, `[é]`, `[^é]`, `[\x{FFFD}]`, `[^\x{FFFD}]`, `(?i:[k])`, `(?i:[^k])`, `(?i:[a-z])`, `(?i:[^s])`)
	// literals: every rune with a non-trivial simple-fold orbit (thorough) or a fixed sample (quick)
	var folds []rune
	for r := rune(0); r <= 0x10FFFF; r++ {
		if unicode.SimpleFold(r) != r {
			folds = append(folds, r)
		}
	}
	step := 1
	if !thorough {
		step = 37
	}
	for i := 0; i < len(folds); i += step {
		r := folds[i]
		q := regexp.QuoteMeta(string(r))
		add("literal", false, q, `(?i:`+q+`)`)
	}
	for _, r := range []rune{'k', 'K', 0x212A, 's', 'S', 0x17F, 'é', 'É', 0x3C3, 0x3C2, 0x3A3, 0x1E9E, 0xDF, 0x10400, 0x10428, 'a', 0x7F, 0x80, 0x7FF, 0x800, 0xFFFF, 0x10000, 0x10FFFF} {
		q := regexp.QuoteMeta(string(r))
		add("literal", false, q, `(?i:`+q+`)`)
	}
	// concatenations of two classes (a rune must not be split between them)
	reps := []string{`\W`, `[^a]`, `.`, `\pL`, `[\x{80}-\x{7FF}]`}
	for _, a := range reps {
		for _, b := range reps {
			add("concat", false, a+b)
		}
	}
	add("concat", false, `\W{2}`, `[^a]{2}`, `.{2}`, `\D{3}`, `(?s:.){2}`)
	return ps
}

// member derives "regexp considers the code point a member" from regexp/syntax's own parsed form.
type member struct {
	op     syntax.Op
	ranges []rune
	lit    rune
	fold   bool
	ok     bool
}

func newMember(src string) member {
	re, err := syntax.Parse(src, syntax.Perl)
	if err != nil {
		return member{}
	}
	re = re.Simplify()
	for re.Op == syntax.OpCapture {
		re = re.Sub[0]
	}
	switch re.Op {
	case syntax.OpCharClass:
		return member{op: re.Op, ranges: re.Rune, ok: true}
	case syntax.OpAnyChar, syntax.OpAnyCharNotNL:
		return member{op: re.Op, ok: true}
	case syntax.OpLiteral:
		if len(re.Rune) == 1 {
			return member{op: re.Op, lit: re.Rune[0], fold: re.Flags&syntax.FoldCase != 0, ok: true}
		}
	}
	return member{}
}

func (m member) has(r rune) bool {
	switch m.op {
	case syntax.OpAnyChar:
		return true
	case syntax.OpAnyCharNotNL:
		return r != '\n'
	case syntax.OpLiteral:
		if r == m.lit {
			return true
		}
		if m.fold {
			for f := unicode.SimpleFold(m.lit); f != m.lit; f = unicode.SimpleFold(f) {
				if f == r {
					return true
				}
			}
		}
		return false
	case syntax.OpCharClass:
		rs := m.ranges
		i := sort.Search(len(rs)/2, func(i int) bool { return rs[2*i+1] >= r })
		return i < len(rs)/2 && rs[2*i] <= r
	}
	return false
}

type mode struct {
	name string
	cfg  nfa.CompilerConfig
}

var modes = []mode{
	{"default", nfa.CompilerConfig{UTF8: true}},
	{"rune-states", nfa.CompilerConfig{UTF8: true, UseRuneStates: true}},
	{"ascii-only", nfa.CompilerConfig{UTF8: true, ASCIIOnly: true}},
}

// Plan builds the C15 plan.
func Plan(tier string) *harness.Plan {
	thorough := tier == "thorough"
	ps := programs(thorough)
	// byte strings: all of length <= 2; boundary bytes for length 3 (and 4 in the thorough tier)
	var bstrs [][]byte
	bstrs = append(bstrs, []byte{})
	for a := 0; a < 256; a++ {
		bstrs = append(bstrs, []byte{byte(a)})
	}
	for a := 0; a < 256; a++ {
		for b := 0; b < 256; b++ {
			bstrs = append(bstrs, []byte{byte(a), byte(b)})
		}
	}
	for _, a := range boundaryBytes {
		for _, b := range boundaryBytes {
			for _, c := range boundaryBytes {
				bstrs = append(bstrs, []byte{a, b, c})
				if thorough {
					for _, d := range boundaryBytes {
						bstrs = append(bstrs, []byte{a, b, c, d})
					}
				}
			}
		}
	}
	run := func(w *harness.W, u int) {
		p := ps[u]
		re, err := syntax.Parse(p.src, syntax.Perl)
		if err != nil {
			panic("ax: program does not parse: " + p.src)
		}
		std := regexp.MustCompile(`^(?:` + p.src + `)$`)
		mem := newMember(p.src)
		e2e, e2eErr := coregex.Compile(`^(?:` + p.src + `)$`)
		var sims []*sim
		// rsims[mi]: simulators over automata produced by the long-lived Compiler of that mode when they differ
		// structurally from the fresh compiler's automaton (nil entries / empty when identical)
		rsims := make([][]*sim, len(modes))
		if reused == nil {
			for _, m := range modes {
				cfg := m.cfg
				cfg.MaxRecursionDepth = 100
				reused = append(reused, nfa.NewCompiler(cfg))
			}
		}
		for mi, m := range modes {
			cfg := m.cfg
			cfg.MaxRecursionDepth = 100
			n, err := nfa.NewCompiler(cfg).CompileRegexp(re)
			if err != nil {
				w.Fail(&harness.Case{Op: "compile", Mode: m.name, Pattern: p.src, Hay: `""`, Want: "compiles", Got: err.Error(), Cluster: p.kind})
				sims = append(sims, nil)
				continue
			}
			sims = append(sims, newSim(n))
			want := dump(n)
			for round := 0; round < 2; round++ {
				rn, rerr := reused[mi].CompileRegexp(re)
				w.C["compilations_on_a_reused_compiler"]++
				if rerr != nil {
					w.Fail(&harness.Case{Op: "compile-on-reused-compiler", Mode: m.name, Pattern: p.src, Hay: `""`, Want: "compiles like a fresh Compiler", Got: rerr.Error(), Cluster: p.kind + "/reused"})
					continue
				}
				if dump(rn) == want {
					w.C["reused_compiler_automaton_identical"]++
					continue
				}
				w.C["reused_compiler_automaton_structurally_different"]++
				rsims[mi] = append(rsims[mi], newSim(rn))
			}
		}
		if e2eErr != nil {
			w.Fail(&harness.Case{Op: "coregex.Compile", Mode: "end-to-end", Pattern: p.src, Hay: `""`, Want: "compiles", Got: e2eErr.Error(), Cluster: p.kind})
		}
		evals, nt := int64(0), int64(0)
		failed := map[string]int{}
		// only the first 40 failing inputs of a (program, mode) are reported one by one; the rest are folded into one
		// digest case per (program, mode), so that ANY change of the failing set is a new, unlisted case
		rest := map[string]uint64{}
		fold := func(k string, b []byte, got bool) {
			h := rest[k]
			if h == 0 {
				h = 14695981039346656037
			}
			for _, c := range b {
				h = (h ^ uint64(c)) * 1099511628211
			}
			g := uint64(2)
			if got {
				g = 3
			}
			rest[k] = (h ^ g ^ uint64(len(b))<<8) * 1099511628211
		}
		check := func(b []byte, want bool) {
			if want {
				nt++
			}
			ascii := true
			for _, c := range b {
				if c >= 0x80 {
					ascii = false
				}
			}
			for mi, s := range sims {
				if s == nil || (modes[mi].name == "ascii-only" && !ascii) {
					continue
				}
				evals++
				if got := s.accepts(b); got != want {
					if failed[modes[mi].name] < 40 {
						w.Fail(&harness.Case{Op: "nfa-accepts", Mode: modes[mi].name, Pattern: p.src, Hay: strconv.Quote(string(b)), Want: strconv.FormatBool(want), Got: strconv.FormatBool(got), Cluster: p.kind + "/" + modes[mi].name})
					} else {
						fold(modes[mi].name, b, got)
					}
					failed[modes[mi].name]++
				}
				if s.bad != "" {
					panic("ax: " + s.bad + ": " + p.src)
				}
				// a structurally different automaton from the long-lived Compiler: a violation where it answers
				// differently from the fresh one AND from the oracle (one report per program and mode)
				for _, rs := range rsims[mi] {
					evals++
					if rgot := rs.accepts(b); rgot != want && rgot != got2(s, b) && failed[modes[mi].name+"/reused"] == 0 {
						failed[modes[mi].name+"/reused"]++
						w.Fail(&harness.Case{Op: "nfa-accepts-reused-compiler", Mode: modes[mi].name, Pattern: p.src, Hay: strconv.Quote(string(b)), Want: strconv.FormatBool(want), Got: strconv.FormatBool(rgot) + " (Compiler value used for earlier programs)", Cluster: p.kind + "/reused"})
					}
				}
			}
			if e2e != nil {
				evals++
				if got := e2e.Match(b); got != want {
					if failed["e2e"] < 40 {
						w.Fail(&harness.Case{Op: "coregex.Match", Mode: "end-to-end", Pattern: p.src, Hay: strconv.Quote(string(b)), Want: strconv.FormatBool(want), Got: strconv.FormatBool(got), Cluster: p.kind + "/end-to-end"})
					} else {
						fold("e2e", b, got)
					}
					failed["e2e"]++
				}
			}
		}
		var buf [4]byte
		if p.full && mem.ok {
			for r := rune(0); r <= 0x10FFFF; r++ {
				if r >= 0xD800 && r <= 0xDFFF {
					continue
				}
				n := utf8.EncodeRune(buf[:], r)
				want := mem.has(r)
				if r%4099 == 0 || r < 0x100 {
					// cross-validate the membership oracle against package regexp itself
					if std.Match(buf[:n]) != want {
						panic(fmt.Sprintf("ax: membership oracle disagrees with regexp on %q for U+%04X", p.src, r))
					}
					w.C["oracle_cross_validated"]++
				}
				check(buf[:n], want)
			}
			w.C["full_code_point_sweeps"]++
		} else {
			// literals / concatenations: fold orbit, neighbours and boundary runes, and pairs of them
			var rs []rune
			if mem.ok && mem.op == syntax.OpLiteral {
				rs = append(rs, mem.lit-1, mem.lit, mem.lit+1)
				for f := unicode.SimpleFold(mem.lit); f != mem.lit; f = unicode.SimpleFold(f) {
					rs = append(rs, f-1, f, f+1)
				}
			}
			rs = append(rs, boundaryRunes...)
			rs = append(rs, 'a', 'A', 'k', 'K', 0x212A, 's', 0x17F, 'é', 'É', 0x3A3, 0x3C3, 0x3C2)
			for _, r := range rs {
				if r < 0 || r > 0x10FFFF || (r >= 0xD800 && r <= 0xDFFF) {
					continue
				}
				n := utf8.EncodeRune(buf[:], r)
				check(buf[:n], std.Match(buf[:n]))
				if p.kind == "concat" {
					for _, r2 := range boundaryRunes {
						if r2 >= 0xD800 && r2 <= 0xDFFF {
							continue
						}
						b2 := append(append([]byte{}, buf[:n]...), string(r2)...)
						check(b2, std.Match(b2))
					}
				}
			}
		}
		for _, b := range bstrs {
			check(b, std.Match(b))
		}
		for k, n := range failed {
			if n > 40 {
				w.C["failing_inputs_beyond_the_40_reported_per_program_"+k] += int64(n - 40)
				mode := k
				if k == "e2e" {
					mode = "end-to-end"
				}
				w.Fail(&harness.Case{Op: "further-failing-inputs", Mode: mode, Pattern: p.src, Hay: strconv.Quote("<all inputs after the first 40 failing ones>"), Want: "no further failing inputs",
					Got: fmt.Sprintf("%d further failing inputs, digest %016x over (input, answer) in enumeration order", n-40, rest[k]), Cluster: p.kind + "/" + mode})
			}
		}
		w.C["evaluations"] += evals
		w.C["transitions"] += evals
		w.C["states"] += evals
		w.C["traces_validated_against_impl"] += evals
		w.C["distinct_nontrivial"] += nt
		w.C["programs"]++
		w.C["programs_"+p.kind]++
		if u%41 == 0 {
			w.Sample(map[string]any{"program": p.src, "kind": p.kind, "full_code_point_sweep": p.full && mem.ok, "byte_strings": len(bstrs), "accepted_inputs": nt, "modes": []string{"default", "rune-states", "ascii-only", "end-to-end coregex.Match"}})
		}
	}
	return &harness.Plan{
		Units: len(ps), Chunk: 2, Run: run,
		Describe: func(u int) string { return "program " + ps[u].src },
		Replay: func(w *harness.W, c *harness.Case) {
			for u := range ps {
				if ps[u].src == c.Pattern {
					run(w, u)
					return
				}
			}
		},
		Rule:   "Programs: . and (?s:.), every Perl and POSIX class and negation, Unicode category/script tables and negations, every range [x-y] and its negation with endpoints at the UTF-8 encoding boundaries (±1), case-folded classes, single-rune literals and (?i:r) for runes with a non-trivial simple-fold orbit, and two-class concatenations. Each is compiled by a fresh nfa.Compiler in default, rune-state and ASCII-only mode — and twice in a row on ONE long-lived Compiler per mode that has compiled every earlier program of the worker (the automaton must not depend on the Compiler's history: structural identity with the fresh automaton, else the same input sweep) — and walked by an independent anchored simulator over the NFA's exported states, and end-to-end by coregex.Match(^(?:c)$); inputs: the UTF-8 encoding of EVERY code point (classes, dot) or the fold orbit ± 1 and boundary runes (literals, concatenations), every byte string of length <= 2, every string of length 3 (thorough: 4) over 25 boundary bytes. Oracle: package regexp (class membership from regexp/syntax's own range tables for the code-point sweep, cross-validated against regexp.Match every 4099th rune; regexp.Match for byte strings). At most 40 failing inputs per program and mode are reported individually (the rest are counted). states = transitions = acceptance evaluations; non-trivial = inputs the oracle accepts.",
		Level:  "model_checking",
		Bounds: map[string]any{"programs": len(ps), "byte_strings": len(bstrs), "code_points": 0x110000 - 0x800, "modes": []string{"default", "rune-states", "ascii-only", "end-to-end"}},
		Budget: map[bool]time.Duration{false: 150 * time.Second, true: 25 * time.Minute}[thorough],
		Assume: []string{"ASCII-only mode is compared on ASCII inputs only", "the independent simulator interprets RuneAny states as 'one decoded rune (invalid byte = width 1)'", "byte strings longer than 4 are not explored"},
	}
}
