// Package px explores every prefilter implementation over bounded literal sets × haystacks × start offsets
// (DESIGN §3 C16).
package px

import (
	"bytes"
	"fmt"
	"regexp"
	"strconv"
	"strings"
	"time"

	"github.com/coregx/coregex/literal"
	"github.com/coregx/coregex/prefilter"

	"verif/internal/guardmem"
	"verif/internal/harness"
	"verif/internal/space"
)

type litSet struct {
	lits     []string
	complete []bool
	kind     string
}

func (s litSet) String() string {
	var parts []string
	for i, l := range s.lits {
		c := ""
		if s.complete[i] {
			c = "!"
		}
		parts = append(parts, strconv.Quote(l)+c)
	}
	return s.kind + "{" + strings.Join(parts, ",") + "}"
}

func allWords(alpha string, lo, hi int) []string {
	var out []string
	var rec func(pre string, n int)
	rec = func(pre string, n int) {
		if len(pre) >= lo {
			out = append(out, pre)
		}
		if n == 0 {
			return
		}
		for i := 0; i < len(alpha); i++ {
			rec(pre+string(alpha[i]), n-1)
		}
	}
	rec("", hi)
	return out
}

func allComplete(n int, v bool) []bool {
	out := make([]bool, n)
	for i := range out {
		out[i] = v
	}
	return out
}

// literalSets enumerates the literal sets of the tier.
func literalSets(thorough bool) []litSet {
	var out []litSet
	// singletons: memchr / memmem
	for _, w := range allWords("abqA", 1, 4) {
		out = append(out, litSet{[]string{w}, []bool{true}, "single"}, litSet{[]string{w}, []bool{false}, "single"})
	}
	out = append(out, litSet{[]string{"\n"}, []bool{true}, "single"}, litSet{[]string{"abqAabqAabqAabqAabqAabqAabqAabqAx"}, []bool{true}, "single"})
	// pairs: slim Teddy needs >= 2 literals of length >= 3
	w3 := allWords("abq", 3, 3)
	w34 := allWords("abq", 3, 4)
	pairSrc := w3
	if thorough {
		pairSrc = w34
	}
	for i := 0; i < len(pairSrc); i++ {
		for j := i + 1; j < len(pairSrc); j++ {
			c := (i+j)%3 != 0
			out = append(out, litSet{[]string{pairSrc[i], pairSrc[j]}, []bool{c, c}, "pair"})
		}
	}
	if !thorough {
		// quick: pairs mixing a length-3 with a length-4 literal that extends another one (prefix overlap)
		for _, a := range w3 {
			for _, x := range "abq" {
				b := a + string(x)
				for _, o := range []string{"qqq", "aba"} {
					if o != a {
						out = append(out, litSet{[]string{o, b}, []bool{true, true}, "pair-ext"}, litSet{[]string{a, b}, []bool{true, true}, "pair-prefix"}, litSet{[]string{b, a}, []bool{true, true}, "pair-prefix"})
					}
				}
			}
		}
	}
	// triples over {a,q} length 3, every assignment of Complete (all-or-nothing is what the builder distinguishes)
	t3 := allWords("aq", 3, 3)
	for i := 0; i < len(t3); i++ {
		for j := i + 1; j < len(t3); j++ {
			for k := j + 1; k < len(t3); k++ {
				out = append(out, litSet{[]string{t3[i], t3[j], t3[k]}, []bool{true, true, true}, "triple"})
				out = append(out, litSet{[]string{t3[k], t3[i], t3[j]}, []bool{true, false, true}, "triple"})
			}
		}
	}
	// short literals (builder must return nil or a sound prefilter)
	out = append(out, litSet{[]string{"a", "b"}, allComplete(2, true), "short"}, litSet{[]string{"ab", "qa"}, allComplete(2, true), "short"}, litSet{[]string{"ab", "abc"}, allComplete(2, true), "short"})
	// generated sets: bucket sharing (9, 17), fat Teddy (33, 64), Aho-Corasick (65, 70)
	for _, n := range []int{9, 17, 32, 33, 64, 65, 70} {
		l := space.GenLiterals(n)
		out = append(out, litSet{l, allComplete(n, true), fmt.Sprintf("gen%d", n)}, litSet{l, allComplete(n, false), fmt.Sprintf("gen%d", n)})
	}
	// "literal k+8 extends literal j": two literals matching at one position land in different buckets
	base := []string{"aaa", "qaa", "Aaa", "baa", "kaa", "aqa", "qqa", "Aqa"}
	for j := 0; j < 8; j++ {
		for _, ext := range []string{"a", "q"} {
			l := append(append([]string{}, base...), base[j]+ext)
			out = append(out, litSet{l, allComplete(9, true), "ext9"})
			// and with the longer literal first (priority order reversed)
			l2 := append([]string{base[j] + ext}, base...)
			out = append(out, litSet{l2, allComplete(9, true), "ext9r"})
		}
	}
	return out
}

// naive: smallest i >= s such that some literal is a prefix of h[i:].
func naiveFind(h []byte, s int, lits []string) int {
	if s < 0 {
		s = 0
	}
	for i := s; i < len(h); i++ {
		for _, l := range lits {
			if len(l) <= len(h)-i && string(h[i:i+len(l)]) == l {
				return i
			}
		}
	}
	return -1
}

type pfUnderTest struct {
	name string
	pf   prefilter.Prefilter
	lits []string
	line bool // line-anchor wrapper: candidate must be at a line start
}

type ctx struct {
	w     *harness.W
	win   *guardmem.Window
	set   litSet
	evals int64
	hits  int64
}

func (c *ctx) fail(op, name string, h []byte, s int, want, got string) {
	c.w.Fail(&harness.Case{Op: op, Mode: c.w.Pass, Pattern: name + " " + c.set.String(), Hay: strconv.Quote(string(h)), Args: "start=" + strconv.Itoa(s), Want: want, Got: got, Cluster: c.set.kind + "/" + strings.SplitN(name, "(", 2)[0]})
}

type addrError interface{ Addr() uintptr }

func (c *ctx) guarded(op, name string, h []byte, s int, f func()) {
	defer func() {
		if r := recover(); r != nil {
			got := "panic: " + fmt.Sprint(r)
			if ae, ok := r.(addrError); ok {
				got = "memory fault at " + c.win.Describe(ae.Addr())
			}
			if len(got) > 200 {
				got = got[:200]
			}
			c.fail(op, name, h, s, "no panic", got)
		}
	}()
	f()
}

// checkOne runs every prefilter under test on (h, s); h is already placed in guarded memory.
func (c *ctx) checkOne(puts []pfUnderTest, std *regexp.Regexp, h []byte, s int) {
	for _, p := range puts {
		p := p
		c.guarded("Find", p.name, h, s, func() {
			want := naiveFind(h, s, p.lits)
			if p.line {
				want = -1
				for t := s; ; {
					i := naiveFind(h, t, p.lits)
					if i < 0 {
						break
					}
					if i == 0 || h[i-1] == '\n' {
						want = i
						break
					}
					t = i + 1
				}
			}
			if tr, ok := p.pf.(interface{ Reset() }); ok {
				tr.Reset() // the sweep judges the tracker statelessly; its protocol is explored by trackerHistory
			}
			got := p.pf.Find(h, s)
			c.evals++
			if want >= 0 {
				c.hits++
			}
			if got != want {
				c.fail("Find", p.name, h, s, strconv.Itoa(want), strconv.Itoa(got))
				return
			}
			if p.pf.IsComplete() && !p.line && std != nil && s <= len(h) {
				// the reported span must be the leftmost-first match of the source alternation from s
				var wantSpan []int
				if loc := std.FindIndex(h[s:]); loc != nil {
					wantSpan = []int{loc[0] + s, loc[1] + s}
				}
				if mf, ok := p.pf.(prefilter.MatchFinder); ok {
					a, b := mf.FindMatch(h, s)
					var gotSpan []int
					if a >= 0 {
						gotSpan = []int{a, b}
					}
					c.evals++
					if fmt.Sprint(gotSpan) != fmt.Sprint(wantSpan) {
						c.fail("FindMatch", p.name, h, s, fmt.Sprint(wantSpan), fmt.Sprint(gotSpan))
					}
				} else if ll := p.pf.LiteralLen(); ll > 0 && got >= 0 {
					c.evals++
					if wantSpan == nil || wantSpan[0] != got || wantSpan[1] != got+ll {
						c.fail("Find+LiteralLen", p.name, h, s, fmt.Sprint(wantSpan), fmt.Sprint([]int{got, got + ll}))
					}
				}
			}
		})
	}
}

// build constructs every prefilter implementation applicable to the set.
func (c *ctx) build() ([]pfUnderTest, *regexp.Regexp) {
	set := c.set
	var ls []literal.Literal
	var pats [][]byte
	var quoted []string
	for i, l := range set.lits {
		ls = append(ls, literal.NewLiteral([]byte(l), set.complete[i]))
		pats = append(pats, []byte(l))
		quoted = append(quoted, regexp.QuoteMeta(l))
	}
	std := regexp.MustCompile(strings.Join(quoted, "|"))
	var puts []pfUnderTest
	add := func(name string, pf prefilter.Prefilter, line bool) {
		if pf == nil || fmt.Sprint(pf) == "<nil>" {
			return
		}
		puts = append(puts, pfUnderTest{name, pf, set.lits, line})
	}
	func() {
		defer func() {
			if r := recover(); r != nil {
				c.fail("Build", "Builder", nil, 0, "no panic", "panic: "+fmt.Sprint(r))
			}
		}()
		b := prefilter.NewBuilder(literal.NewSeq(ls...), nil).Build()
		if b != nil {
			add(fmt.Sprintf("Builder(%T)", b), b, false)
			add("WrapIncomplete", prefilter.WrapIncomplete(b), false)
			add("WrapLineAnchor", prefilter.WrapLineAnchor(b), true)
			add("Tracker", prefilter.NewTracker(b), false)
			add("WrapWithTracking", prefilter.WrapWithTracking(b), false)
		}
		// suffix-only sequence takes the same selection path
		if b2 := prefilter.NewBuilder(nil, literal.NewSeq(ls...)).Build(); b2 != nil {
			add(fmt.Sprintf("Builder-suffixes(%T)", b2), b2, false)
		}
		for fp := 1; fp <= 4; fp++ {
			cfg := prefilter.DefaultTeddyConfig()
			cfg.FingerprintLen = fp
			if t := prefilter.NewTeddy(pats, cfg); t != nil {
				add(fmt.Sprintf("NewTeddy(fp=%d)", fp), t, false)
			}
		}
		if ft := prefilter.NewFatTeddy(pats, nil); ft != nil {
			add("NewFatTeddy", ft, false)
		}
	}()
	return puts, std
}

// Plan builds the C16 plan.
func Plan(tier string) *harness.Plan {
	thorough := tier == "thorough"
	sets := literalSets(thorough)
	hayL := 4
	embW := 2
	embJ := []int{0, 33}
	if thorough {
		hayL, embW, embJ = 5, 3, []int{0, 1, 31, 33, 100}
	}
	sigma := []string{"a", "b", "q", "A", "\n"}
	short := space.WordList(sigma, hayL)
	emb := space.Embed(space.WordList(sigma, embW), []byte{'z', 'a'}, space.EmbedI, embJ)
	// multi-literal sets: every word of up to 4 symbols over the literal alphabet behind a neutral pad that pushes
	// it past the 16/32-byte vector paths and flush against the end (false candidates next to a final literal)
	embMulti := space.Embed(space.WordList([]string{"a", "b", "q"}, 4), []byte{'z'}, []int{13, 16, 29, 33}, []int{0, 15})
	var win *guardmem.Window
	digitUnit := len(sets)
	run := func(w *harness.W, u int) {
		if win == nil {
			win = guardmem.New(2)
		}
		if u == digitUnit {
			runDigit(w, win, short, emb)
			return
		}
		c := &ctx{w: w, win: win, set: sets[u]}
		puts, std := c.build()
		if len(puts) == 0 {
			w.C["sets_without_prefilter"]++
			return
		}
		w.C["programs"]++
		for _, p := range puts {
			w.C["impl_"+strings.SplitN(p.name, "(", 2)[0]]++
		}
		// tokens of the set itself, so that long / generated literals occur in haystacks
		var own [][]byte
		if len(sets[u].lits) > 3 || len(sets[u].lits[0]) > 4 {
			toks := append([]string{}, sets[u].lits...)
			if len(toks) > 6 {
				toks = append(toks[:3], toks[len(toks)-3:]...)
			}
			toks = append(toks, "z", "a")
			own = space.Embed(space.WordList(toks, 2), []byte{'z'}, []int{0, 1, 15, 16, 17, 31, 32, 33, 63, 64, 65}, []int{0, 17})
		}
		do := func(h0 []byte, allOffsets bool) {
			h := win.PlaceHi(h0)
			if allOffsets {
				for s := 0; s <= len(h); s++ {
					c.checkOne(puts, std, h, s)
				}
			} else {
				// embeddings: offsets around every literal occurrence boundary plus both ends
				seen := map[int]bool{}
				for _, s := range []int{0, 1, len(h) - 1, len(h)} {
					if s >= 0 && s <= len(h) && !seen[s] {
						seen[s] = true
						c.checkOne(puts, std, h, s)
					}
				}
				if i := naiveFind(h, 0, sets[u].lits); i >= 0 {
					for _, s := range []int{i - 1, i, i + 1} {
						if s >= 0 && s <= len(h) && !seen[s] {
							seen[s] = true
							c.checkOne(puts, std, h, s)
						}
					}
				}
			}
			// also flush against the lower guard at offset 0
			hl := win.PlaceLo(h0)
			c.checkOne(puts, std, hl, 0)
			w.C["states"]++
		}
		for _, h := range short {
			do(h, true)
		}
		for _, h := range emb {
			do(h, false)
		}
		if k := sets[u].kind; k == "pair" || k == "pair-ext" || k == "pair-prefix" || k == "triple" {
			for _, h := range embMulti {
				do(h, false)
			}
		}
		for _, h := range own {
			do(h, false)
		}
		trackerHistory(c, puts)
		w.C["evaluations"] += c.evals
		w.C["transitions"] += c.evals
		w.C["traces_validated_against_impl"] += c.evals
		w.C["distinct_nontrivial"] += c.hits
		if u%97 == 0 || sets[u].kind != "pair" && sets[u].kind != "single" && u%5 == 0 {
			var names []string
			for _, p := range puts {
				names = append(names, p.name)
			}
			w.Sample(map[string]any{"literal_set": sets[u].String(), "implementations": names, "haystacks": len(short) + len(emb) + len(own), "pass": w.Pass, "find_calls": c.evals, "hits": c.hits})
		}
	}
	return &harness.Plan{
		Units: len(sets) + 1, Chunk: 4, Run: run,
		Describe: func(u int) string {
			if u == digitUnit {
				return "digit prefilter"
			}
			return sets[u].String()
		},
		Replay: func(w *harness.W, c *harness.Case) {
			if strings.HasPrefix(c.Pattern, "DigitPrefilter") {
				run(w, digitUnit)
				return
			}
			for u := range sets {
				if strings.HasSuffix(c.Pattern, " "+sets[u].String()) {
					run(w, u)
					return
				}
			}
		},
		Rule:  "Literal sets: every single literal of length 1-4 over {a,b,q,A} (complete and incomplete), every pair of length-3 (thorough: 3-4) literals over {a,b,q}, prefix-overlapping pairs, every triple of length-3 literals over {a,q}, short-literal sets, generated 9/17/32/33/64/65/70-literal sets and every 9-literal set in which literal 9 extends literal j (both priority orders). Each set is built through Builder.Build (prefixes and suffixes), NewTeddy with fingerprint length 1-4, NewFatTeddy, WrapIncomplete, WrapLineAnchor, NewTracker, WrapWithTracking; plus the digit prefilter. Haystacks: every sequence of at most L symbols over {a,b,q,A,newline} at every start offset, embeddings pad^i·w·pad^j across the 16/32/64-byte strides, and token sequences of the set's own literals, placed flush against an inaccessible page. Oracle: smallest position >= start where a literal occurs (line-anchor wrapper: at a line start); for complete prefilters FindMatch / Find+LiteralLen must equal package regexp's FindIndex of the literal alternation. The Tracker is explored as a history (BFS over Find/ConfirmMatch/Reset). Repeated under three CPU-feature masks. states = (set, haystack) pairs; transitions = Find/FindMatch calls; non-trivial = a literal occurs at or after the offset.",
		Level: "model_checking", Budget: budget(tier),
		Bounds: map[string]any{"literal_sets": len(sets), "haystack_symbols": hayL, "short_haystacks": len(short), "embedded_haystacks": len(emb), "embedded_haystacks_multi_literal_sets": len(embMulti), "embedding_word_len": embW},
		Passes: []harness.Pass{{Name: "native"}, {Name: "noavx2", Env: []string{"GODEBUG=cpu.avx2=off"}}, {Name: "noavx2-nossse3", Env: []string{"GODEBUG=cpu.avx2=off,cpu.ssse3=off"}}},
		Assume: []string{"an inactive Tracker returning -1 is a documented decline (callers must test IsActive)", "literal alphabets and lengths as stated; literals longer than 4 bytes only in the generated sets", "x/sys/cpu honours GODEBUG=cpu.<feature>=off"},
	}
}

func budget(tier string) time.Duration {
	if tier == "thorough" {
		return 25 * time.Minute
	}
	return 150 * time.Second
}

func runDigit(w *harness.W, win *guardmem.Window, short, emb [][]byte) {
	c := &ctx{w: w, win: win, set: litSet{[]string{"0", "1", "2", "3", "4", "5", "6", "7", "8", "9"}, allComplete(10, false), "DigitPrefilter"}}
	pf := prefilter.NewDigitPrefilter()
	put := []pfUnderTest{{"DigitPrefilter", pf, c.set.lits, false}, {"Tracker(DigitPrefilter)", prefilter.NewTracker(pf), c.set.lits, false}}
	sig := []string{"a", "0", "9", "/", ":", "\n"}
	hs := space.Union(space.WordList(sig, 4), space.Embed(space.WordList(sig, 2), []byte{'z', '/', ':'}, space.EmbedI, []int{0, 33}))
	for _, h0 := range hs {
		h := win.PlaceHi(h0)
		for s := 0; s <= len(h); s++ {
			c.checkOne(put, nil, h, s)
			if len(h) > 12 && s >= 2 && s < len(h)-2 {
				s += len(h)/6 - 1
			}
		}
		w.C["states"]++
	}
	w.C["evaluations"] += c.evals
	w.C["transitions"] += c.evals
	w.C["traces_validated_against_impl"] += c.evals
	w.C["distinct_nontrivial"] += c.hits
}

// trackerHistory explores every sequence of at most 6 operations from {Find hit, Find miss, ConfirmMatch, Reset} on
// a Tracker with small thresholds: while active it must answer like its inner prefilter; once inactive it
// returns -1 until Reset; it may only become inactive at a checkpoint where efficiency < MinEfficiency after the
// warm-up period (the documented protocol).
func trackerHistory(c *ctx, puts []pfUnderTest) {
	if len(puts) == 0 || !strings.HasPrefix(puts[0].name, "Builder(") {
		return
	}
	inner := puts[0].pf
	hit := []byte("zz" + c.set.lits[0] + "zz")
	miss := []byte("zzzzzz")
	cfgs := []prefilter.TrackerConfig{{CheckInterval: 1, MinEfficiency: 0.5, WarmupPeriod: 1}, {CheckInterval: 2, MinEfficiency: 0.34, WarmupPeriod: 3}, {CheckInterval: 4, MinEfficiency: 1.0, WarmupPeriod: 0}}
	ops := []string{"hit", "miss", "confirm", "reset"}
	for ci, cfg := range cfgs {
		var seq []int
		var rec func(d int)
		rec = func(d int) {
			if d > 0 {
				// replay the sequence on a fresh tracker next to a model
				t := prefilter.NewTrackerWithConfig(inner, cfg)
				var cand, conf, last uint64
				active := true
				for step, o := range seq {
					switch ops[o] {
					case "hit", "miss":
						h := hit
						if ops[o] == "miss" {
							h = miss
						}
						got := t.Find(h, 0)
						want := -1
						if active {
							want = inner.Find(h, 0)
							if want >= 0 {
								cand++
								if cand >= cfg.WarmupPeriod && cand-last >= cfg.CheckInterval {
									last = cand
									if float64(conf)/float64(cand) < cfg.MinEfficiency {
										active = false
									}
								}
							}
						}
						c.evals++
						if got != want {
							c.fail("Tracker-history", fmt.Sprintf("Tracker(cfg%d)", ci), h, 0, fmt.Sprintf("%d at step %d of %v", want, step, seqNames(seq, ops)), strconv.Itoa(got))
							return
						}
					case "confirm":
						t.ConfirmMatch()
						if active || true {
							conf++
						}
					case "reset":
						t.Reset()
						cand, conf, last, active = 0, 0, 0, true
					}
					if t.IsActive() != active {
						c.fail("Tracker-history", fmt.Sprintf("Tracker(cfg%d)", ci), hit, 0, fmt.Sprintf("active=%v after %v", active, seqNames(seq[:step+1], ops)), fmt.Sprintf("active=%v", t.IsActive()))
						return
					}
				}
				c.w.C["tracker_histories"]++
			}
			if d == 5 {
				return
			}
			for o := range ops {
				seq = append(seq, o)
				rec(d + 1)
				seq = seq[:len(seq)-1]
			}
		}
		rec(0)
	}
}

func seqNames(seq []int, ops []string) []string {
	var out []string
	for _, o := range seq {
		out = append(out, ops[o])
	}
	return out
}

var _ = bytes.Equal
