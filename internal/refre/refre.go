// Package refre is the deliberately boring reference matcher of DESIGN §2.3: priority-ordered backtracking
// over regexp/syntax's own compiled program, stepping rune by rune exactly like package regexp (an invalid byte
// is U+FFFD of width 1; empty-width assertions see the neighbouring runes). It answers what package regexp has
// no API for: a search that starts at an offset with full look-behind context, and the set of all spans at which
// the pattern can match.
package refre

import (
	"regexp/syntax"
	"unicode/utf8"
)

// Prog is a compiled reference program.
type Prog struct {
	prog   *syntax.Prog
	NumCap int // number of capture slots (2*(groups+1))
	// scratch
	visited []uint32
	gen     uint32
	cap     []int
	best    []int
	h       []byte
	longest bool
	endAt   int // for anchored-end queries; -1 = any
}

// Compile parses with the given flags (syntax.Perl for Compile, syntax.POSIX for CompilePOSIX) exactly as package
// regexp does: Parse, Simplify, Compile.
func Compile(pattern string, flags syntax.Flags) (*Prog, error) {
	re, err := syntax.Parse(pattern, flags)
	if err != nil {
		return nil, err
	}
	ncap := re.MaxCap()
	p, err := syntax.Compile(re.Simplify())
	if err != nil {
		return nil, err
	}
	return &Prog{prog: p, NumCap: 2 * (ncap + 1)}, nil
}

func MustCompile(pattern string) *Prog {
	p, err := Compile(pattern, syntax.Perl)
	if err != nil {
		panic(err)
	}
	return p
}

func (p *Prog) context(pos int) syntax.EmptyOp {
	r1, r2 := rune(-1), rune(-1)
	if pos > 0 {
		r1, _ = utf8.DecodeLastRune(p.h[:pos])
	}
	if pos < len(p.h) {
		r2, _ = utf8.DecodeRune(p.h[pos:])
	}
	return syntax.EmptyOpContext(r1, r2)
}

func (p *Prog) reset(h []byte) {
	p.h = h
	n := len(p.prog.Inst) * (len(h) + 1)
	if cap(p.visited) < n {
		p.visited = make([]uint32, n)
		p.gen = 0
	}
	p.visited = p.visited[:n]
	if len(p.cap) != p.NumCap {
		p.cap = make([]int, p.NumCap)
		p.best = make([]int, p.NumCap)
	}
}

func (p *Prog) newGen() {
	p.gen++
	if p.gen == 0 {
		for i := range p.visited[:cap(p.visited)] {
			p.visited[:cap(p.visited)][i] = 0
		}
		p.gen = 1
	}
}

// try runs the backtracker from (pc,pos). In leftmost-first mode it returns true at the first match found in
// priority order (captures in p.cap). In longest mode it explores everything and keeps the longest in p.best.
func (p *Prog) try(pc uint32, pos int) bool {
	for {
		v := int(pc)*(len(p.h)+1) + pos
		if p.visited[v] == p.gen {
			return false
		}
		p.visited[v] = p.gen
		inst := &p.prog.Inst[pc]
		switch inst.Op {
		case syntax.InstFail:
			return false
		case syntax.InstAlt, syntax.InstAltMatch:
			if p.try(inst.Out, pos) {
				return true
			}
			pc = inst.Arg
		case syntax.InstNop:
			pc = inst.Out
		case syntax.InstCapture:
			if int(inst.Arg) < len(p.cap) {
				old := p.cap[inst.Arg]
				p.cap[inst.Arg] = pos
				if p.try(inst.Out, pos) {
					return true
				}
				p.cap[inst.Arg] = old
				return false
			}
			pc = inst.Out
		case syntax.InstEmptyWidth:
			if syntax.EmptyOp(inst.Arg)&^p.context(pos) != 0 {
				return false
			}
			pc = inst.Out
		case syntax.InstRune, syntax.InstRune1, syntax.InstRuneAny, syntax.InstRuneAnyNotNL:
			if pos >= len(p.h) {
				return false
			}
			r, w := utf8.DecodeRune(p.h[pos:])
			if !inst.MatchRune(r) {
				return false
			}
			pc = inst.Out
			pos += w
		case syntax.InstMatch:
			if p.endAt >= 0 && pos != p.endAt {
				return false
			}
			if p.longest {
				if p.best[1] < pos {
					copy(p.best, p.cap)
					p.best[1] = pos
				}
				return false
			}
			p.cap[1] = pos
			return true
		default:
			panic("refre: bad inst")
		}
	}
}

// matchAt tries an anchored match starting exactly at pos. On success the capture vector is in the returned slice
// (valid until the next call).
func (p *Prog) matchAt(pos int) []int {
	for i := range p.cap {
		p.cap[i] = -1
		p.best[i] = -1
	}
	p.cap[0] = pos
	p.newGen()
	if p.longest {
		p.try(uint32(p.prog.Start), pos)
		if p.best[1] >= 0 {
			p.best[0] = pos
			return p.best
		}
		return nil
	}
	if p.try(uint32(p.prog.Start), pos) {
		return p.cap
	}
	return nil
}

// FindAt returns the capture vector of the leftmost(-first | -longest) match whose start is >= at, judged with
// the whole haystack as context (look-behind sees h[:at]); nil if none. Only rune-boundary starts that regexp
// itself would try are tried: at, then successive rune starts.
func (p *Prog) FindAt(h []byte, at int, longest bool) []int {
	p.reset(h)
	p.longest = longest
	p.endAt = -1
	for pos := at; pos <= len(h); {
		if m := p.matchAt(pos); m != nil {
			return append([]int(nil), m...)
		}
		if pos >= len(h) {
			break
		}
		_, w := utf8.DecodeRune(h[pos:])
		pos += w
	}
	return nil
}

// FindAtAnchored returns the capture vector of the leftmost-first match that starts exactly at `at` (in context),
// or nil.
func (p *Prog) FindAtAnchored(h []byte, at int) []int {
	p.reset(h)
	p.longest = false
	p.endAt = -1
	if m := p.matchAt(at); m != nil {
		return append([]int(nil), m...)
	}
	return nil
}

// FindAtBytewise is FindAt but tries every byte offset >= at as a start (what a byte-level automaton without
// rune alignment computes). For valid UTF-8 and patterns whose first rune is matched exactly the two coincide.
func (p *Prog) FindAtBytewise(h []byte, at int, longest bool) []int {
	p.reset(h)
	p.longest = longest
	p.endAt = -1
	for pos := at; pos <= len(h); pos++ {
		if m := p.matchAt(pos); m != nil {
			return append([]int(nil), m...)
		}
	}
	return nil
}

// MatchSpan reports whether the pattern can match exactly h[s:e] in context (any priority).
func (p *Prog) MatchSpan(h []byte, s, e int) bool {
	p.reset(h)
	p.longest = false
	p.endAt = e
	return p.matchAt(s) != nil
}

// AllEnds returns, for start s, every end e such that (s,e) is a match span in context, ascending.
func (p *Prog) AllEnds(h []byte, s int) []int {
	p.reset(h)
	var ends []int
	for e := s; e <= len(h); e++ {
		p.longest = false
		p.endAt = e
		if p.matchAt(s) != nil {
			ends = append(ends, e)
		}
	}
	return ends
}

// FindAll enumerates successive matches exactly like regexp.FindAllSubmatchIndex(h, n).
func (p *Prog) FindAll(h []byte, n int, longest bool) [][]int {
	if n < 0 {
		n = len(h) + 1
	}
	var out [][]int
	pos, prevEnd := 0, -1
	for len(out) < n && pos <= len(h) {
		m := p.FindAt(h, pos, longest)
		if m == nil {
			break
		}
		accept := true
		if m[1] == m[0] {
			// empty match
			if m[0] == prevEnd {
				accept = false
			}
			if m[1] < len(h) {
				_, w := utf8.DecodeRune(h[m[1]:])
				pos = m[1] + w
			} else {
				pos = len(h) + 1
			}
		} else {
			pos = m[1]
		}
		prevEnd = m[1]
		if accept {
			out = append(out, m)
		}
	}
	return out
}
