// Package kf is the known-findings store (DESIGN §2.5). A finding is a root cause with a description and the
// exact set of failing cases attributed to it; a case is identified by a 64-bit hash of (operation, mode,
// pattern, haystack, arguments, observed wrong result). Checks only read the store.
package kf

import (
	"bufio"
	"encoding/binary"
	"encoding/json"
	"fmt"
	"hash/fnv"
	"io"
	"os"
	"path/filepath"
	"sort"
)

// Finding is one entry of known_findings.json.
type Finding struct {
	ID       string          `json:"id"`
	Property string          `json:"property"`
	Status   string          `json:"status"` // "open" or "fixed"
	Where    string          `json:"where"`
	What     string          `json:"what"`
	Commit   string          `json:"commit,omitempty"`
	Witness  json.RawMessage `json:"witness,omitempty"`
	Cases    string          `json:"cases,omitempty"` // file under known/, relative to /verif
	NCases   int             `json:"n_cases,omitempty"`
}

// File is known_findings.json.
type File struct {
	Comment  string    `json:"comment"`
	Findings []Finding `json:"findings"`
}

// Hash computes the case identity.
func Hash(parts ...[]byte) uint64 {
	h := fnv.New64a()
	var l [4]byte
	for _, p := range parts {
		binary.LittleEndian.PutUint32(l[:], uint32(len(p)))
		h.Write(l[:])
		h.Write(p)
	}
	return h.Sum64()
}

// Store is the in-memory lookup structure for one property.
type Store struct {
	Findings []Finding // open findings of this property that have case sets
	keys     []uint64
	owner    []uint16
	Fixed    []Finding
}

// Load reads known_findings.json and the case sets of the given property.
func Load(root, property string) (*Store, error) {
	st := &Store{}
	b, err := os.ReadFile(filepath.Join(root, "known_findings.json"))
	if err != nil {
		if os.IsNotExist(err) {
			return st, nil
		}
		return nil, err
	}
	var f File
	if err := json.Unmarshal(b, &f); err != nil {
		return nil, fmt.Errorf("known_findings.json: %w", err)
	}
	type kv struct {
		k uint64
		o uint16
	}
	var all []kv
	for _, fd := range f.Findings {
		if fd.Property != property {
			continue
		}
		if fd.Status == "fixed" {
			st.Fixed = append(st.Fixed, fd)
			continue
		}
		idx := uint16(len(st.Findings))
		st.Findings = append(st.Findings, fd)
		if fd.Cases == "" {
			continue
		}
		ks, err := ReadSet(filepath.Join(root, fd.Cases))
		if err != nil {
			return nil, err
		}
		for _, k := range ks {
			all = append(all, kv{k, idx})
		}
	}
	sort.Slice(all, func(i, j int) bool { return all[i].k < all[j].k })
	st.keys = make([]uint64, len(all))
	st.owner = make([]uint16, len(all))
	for i, e := range all {
		st.keys[i] = e.k
		st.owner[i] = e.o
	}
	return st, nil
}

// Lookup returns the index into Findings of the finding that lists the case, or -1.
func (s *Store) Lookup(k uint64) int {
	i := sort.Search(len(s.keys), func(i int) bool { return s.keys[i] >= k })
	if i < len(s.keys) && s.keys[i] == k {
		return int(s.owner[i])
	}
	return -1
}

func (s *Store) Len() int { return len(s.keys) }

// WriteSet writes a sorted, deduplicated set of hashes as delta-encoded uvarints.
func WriteSet(path string, keys []uint64) error {
	sort.Slice(keys, func(i, j int) bool { return keys[i] < keys[j] })
	f, err := os.Create(path)
	if err != nil {
		return err
	}
	w := bufio.NewWriter(f)
	w.WriteString("KFSET1\n")
	var buf [binary.MaxVarintLen64]byte
	var prev uint64
	first := true
	for _, k := range keys {
		if !first && k == prev {
			continue
		}
		d := k - prev
		if first {
			d = k
		}
		n := binary.PutUvarint(buf[:], d)
		w.Write(buf[:n])
		prev = k
		first = false
	}
	if err := w.Flush(); err != nil {
		return err
	}
	return f.Close()
}

// ReadSet reads a set written by WriteSet.
func ReadSet(path string) ([]uint64, error) {
	f, err := os.Open(path)
	if err != nil {
		return nil, err
	}
	defer f.Close()
	r := bufio.NewReaderSize(f, 1<<20)
	hdr, err := r.ReadString('\n')
	if err != nil || hdr != "KFSET1\n" {
		return nil, fmt.Errorf("%s: bad header", path)
	}
	var out []uint64
	var prev uint64
	for {
		d, err := binary.ReadUvarint(r)
		if err == io.EOF {
			break
		}
		if err != nil {
			return nil, fmt.Errorf("%s: %w", path, err)
		}
		prev += d
		out = append(out, prev)
	}
	return out, nil
}
