// Package lx checks that extracted literal sequences are necessary for every match (DESIGN §3 C17): the matches
// of each pattern are enumerated completely up to a length bound (all spans at which the reference matcher says
// the pattern matches, in every context of the bounded haystack space) and compared with what the extractor
// promises, under every extractor limit within a deviation bound.
package lx

import (
	"bytes"
	"fmt"
	"regexp/syntax"
	"strconv"
	"strings"
	"time"

	"github.com/coregx/coregex/literal"

	"verif/internal/bx"
	"verif/internal/harness"
	"verif/internal/refre"
	"verif/internal/space"
)

type cfgT struct {
	name string
	cfg  literal.ExtractorConfig
}

func configs(k int) []cfgT {
	def := literal.DefaultConfig()
	out := []cfgT{{"default", def}}
	type dev struct {
		name string
		set  func(*literal.ExtractorConfig)
	}
	var fields [][]dev
	mk := func(field string, vals []int, set func(*literal.ExtractorConfig, int)) {
		var ds []dev
		for _, v := range vals {
			v := v
			ds = append(ds, dev{fmt.Sprintf("%s=%d", field, v), func(c *literal.ExtractorConfig) { set(c, v) }})
		}
		fields = append(fields, ds)
	}
	mk("MaxLiterals", []int{1, 2, 3}, func(c *literal.ExtractorConfig, v int) { c.MaxLiterals = v })
	mk("MaxLiteralLen", []int{1, 2, 3}, func(c *literal.ExtractorConfig, v int) { c.MaxLiteralLen = v })
	mk("MaxClassSize", []int{1, 2}, func(c *literal.ExtractorConfig, v int) { c.MaxClassSize = v })
	mk("CrossProductLimit", []int{1, 2, 4}, func(c *literal.ExtractorConfig, v int) { c.CrossProductLimit = v })
	var rec func(f, left int, names []string, sets []func(*literal.ExtractorConfig))
	rec = func(f, left int, names []string, sets []func(*literal.ExtractorConfig)) {
		if f == len(fields) {
			if len(names) == 0 {
				return
			}
			c := def
			for _, s := range sets {
				s(&c)
			}
			out = append(out, cfgT{strings.Join(names, ","), c})
			return
		}
		rec(f+1, left, names, sets)
		if left > 0 {
			for _, d := range fields[f] {
				rec(f+1, left-1, append(append([]string{}, names...), d.name), append(append([]func(*literal.ExtractorConfig){}, sets...), d.set))
			}
		}
	}
	rec(0, k, nil, nil)
	return out
}

func showSeq(s *literal.Seq) string {
	if s == nil {
		return "nil"
	}
	var parts []string
	for i := 0; i < s.Len(); i++ {
		l := s.Get(i)
		c := ""
		if l.Complete {
			c = "!"
		}
		parts = append(parts, strconv.Quote(string(l.Bytes))+c)
	}
	p := ""
	if s.IsPartialCoverage() {
		p = " partial"
	}
	return "[" + strings.Join(parts, " ") + "]" + p
}

type span struct {
	h    []byte
	s, e int
}

// Plan builds the C17 plan.
func Plan(tier string) *harness.Plan {
	k := 1
	t := bx.Tier{PN: 4, SK: 1, LASCII: 3, LUTF8: 2, LRaw: 0, EmbedW: -1, TokL: 2, TokN: 5, SeedEmbW: -1, SeedEmbFirst: 1000, SeedTokL: 4, SeedTokN: 6, Budget: 150 * time.Second}
	if tier == "thorough" {
		// every configuration with at most 2 deviations; plus the 5-node patterns and two-edit seed neighbourhoods
		k = 2
		t.PN, t.HugePN, t.LHuge, t.SK, t.LateSKDelta, t.Budget = 5, 4, 3, 2, 1, 25*time.Minute
	}
	sp := bx.NewSpace(t)
	cfgs := configs(k)
	nAlg := 1
	run := func(w *harness.W, u int) {
		if u < nAlg {
			algebra(w)
			return
		}
		u -= nAlg
		p := sp.Pats[u]
		re, err := syntax.Parse(p, syntax.Perl)
		if err != nil {
			return
		}
		ref, err := refre.Compile(p, syntax.Perl)
		if err != nil {
			return
		}
		// enumerate L(p) in context: every span (s,e) of every haystack at which p matches
		var spans []span
		hs := sp.Haystacks(u)
		seenM := map[string]bool{}
		for _, h := range hs {
			for s := 0; s <= len(h); s++ {
				for _, e := range ref.AllEnds(h, s) {
					m := string(h[s:e])
					if !seenM[m] {
						seenM[m] = true
						spans = append(spans, span{h, s, e})
					}
				}
			}
		}
		w.C["programs"]++
		w.C["states"] += int64(len(hs))
		w.C["match_strings_enumerated"] += int64(len(spans))
		if len(spans) > 0 {
			w.C["distinct_nontrivial"]++
		}
		fail := func(op, cfg string, sp0 span, want, got string) {
			w.Fail(&harness.Case{Op: op, Mode: cfg, Pattern: p, Hay: strconv.Quote(string(sp0.h)), Args: fmt.Sprintf("span=[%d,%d]", sp0.s, sp0.e), Want: want, Got: got, Cluster: op})
		}
		for _, c := range cfgs {
			func() {
				defer func() {
					if r := recover(); r != nil {
						fail("extract-panic", c.name, span{}, "no panic", fmt.Sprint(r))
					}
				}()
				ex := literal.New(c.cfg)
				pre := ex.ExtractPrefixes(re)
				suf := ex.ExtractSuffixes(re)
				inn := ex.ExtractInner(re)
				rev := ex.ExtractInnerForReverseSearch(re)
				w.C["evaluations"] += 4
				w.C["transitions"] += 4
				check := func(op string, seq *literal.Seq, ok func(m []byte, l []byte) bool) {
					if seq == nil || seq.IsEmpty() || seq.IsPartialCoverage() {
						w.C["seq_"+op+"_empty_or_partial"]++
						return
					}
					w.C["seq_"+op+"_checked"]++
					for _, sp0 := range spans {
						m := sp0.h[sp0.s:sp0.e]
						found := false
						for i := 0; i < seq.Len(); i++ {
							if ok(m, seq.Get(i).Bytes) {
								found = true
								break
							}
						}
						w.C["traces_validated_against_impl"]++
						if !found {
							fail(op, c.name, sp0, fmt.Sprintf("match %q has one of the literals", m), showSeq(seq))
							return
						}
					}
				}
				check("prefixes", pre, bytes.HasPrefix)
				check("suffixes", suf, bytes.HasSuffix)
				check("inner", inn, func(m, l []byte) bool { return bytes.Contains(m, l) })
				if rev != nil {
					check("inner-reverse", rev.Literals, func(m, l []byte) bool { return bytes.Contains(m, l) })
				}
				// Complete discipline for prefixes: a complete literal is by itself an entire match, and for every
				// extension l·x the leftmost-first match at 0 ends at len(l) when l is the first literal (in sequence
				// order) that is a prefix of l·x.
				if pre != nil && !pre.IsEmpty() {
					for i := 0; i < pre.Len(); i++ {
						l := pre.Get(i)
						if !l.Complete {
							continue
						}
						if !ref.MatchSpan(l.Bytes, 0, len(l.Bytes)) {
							fail("complete-literal-not-a-match", c.name, span{l.Bytes, 0, len(l.Bytes)}, "pattern matches exactly the literal", showSeq(pre))
							break
						}
						bad := false
						space.Words([]string{"a", "b", "0", " ", "\n"}, 2, func(x []byte) {
							if bad {
								return
							}
							t := append(append([]byte{}, l.Bytes...), x...)
							first := -1
							for j := 0; j < pre.Len(); j++ {
								if bytes.HasPrefix(t, pre.Get(j).Bytes) {
									first = j
									break
								}
							}
							if first != i {
								return
							}
							m := ref.FindAt(t, 0, false)
							if m == nil || m[0] != 0 || m[1] != len(l.Bytes) {
								bad = true
								fail("complete-literal-not-the-preferred-match", c.name, span{t, 0, len(l.Bytes)}, fmt.Sprintf("leftmost-first match of %q is [0 %d]", t, len(l.Bytes)), fmt.Sprintf("%v with %s", m, showSeq(pre)))
							}
						})
						if bad {
							break
						}
					}
				}
			}()
		}
		if u%499 == 0 {
			var ms []string
			for i, s0 := range spans {
				if i >= 5 {
					break
				}
				ms = append(ms, string(s0.h[s0.s:s0.e]))
			}
			ex := literal.New(literal.DefaultConfig())
			w.Sample(map[string]any{"pattern": p, "match_strings": len(spans), "first_matches": ms, "prefixes": showSeq(ex.ExtractPrefixes(re)), "suffixes": showSeq(ex.ExtractSuffixes(re)), "inner": showSeq(ex.ExtractInner(re)), "configs": len(cfgs)})
		}
	}
	b := sp.Bounds()
	b["extractor_config_deviations_max"] = k
	b["extractor_configs"] = len(cfgs)
	return &harness.Plan{
		Units: len(sp.Pats) + nAlg, Chunk: 24, Run: run,
		Describe: func(u int) string {
			if u < nAlg {
				return "seq algebra"
			}
			return fmt.Sprintf("pattern %q", sp.Pats[u-nAlg])
		},
		Replay: func(w *harness.W, c *harness.Case) {
			if c.Pattern == "seq-algebra" {
				algebra(w)
				return
			}
			for u, p := range sp.Pats {
				if p == c.Pattern {
					run(w, u+nAlg)
					return
				}
			}
		},
		Rule:   "For every pattern AST up to N nodes and every seed neighbour (parsed with syntax.Perl, not simplified — what meta passes), and every extractor configuration with at most k deviations over MaxLiterals/MaxLiteralLen/MaxClassSize/CrossProductLimit: ExtractPrefixes, ExtractSuffixes, ExtractInner, ExtractInnerForReverseSearch are compared with the complete set of match strings of the pattern up to the length bound (every span at which the reference matcher matches, in every context of the bounded haystack space): unless empty or flagged partial, every match starts with / ends with / contains one of the literals; a Complete prefix literal is by itself a match and is the leftmost-first match of every extension l·x (|x|<=2) for which it is the first applicable literal. Seq operations (Minimize, Dedup, KeepFirstBytes, CrossForward, LongestCommonPrefix/Suffix) are checked as an algebra on every Seq of at most 3 literals of length at most 3 over {a,b} with every Complete assignment. states = (program, haystack) pairs whose match spans were enumerated; transitions = extractor calls; traces_validated_against_impl = (match string, sequence) necessity checks; non-trivial = programs with at least one match string.",
		Level:  "model_checking",
		Bounds: b, Budget: t.Budget,
		Assume: []string{"match strings longer than the haystack bound are not enumerated", "the reference matcher refre (validated against package regexp in the C14/C19 checks) defines the language", "Complete is checked with empty left context only (the property says 'by itself')"},
	}
}

// ---- Seq algebra ----------------------------------------------------------------------------------------------

func covers(lits []literal.Literal, t []byte, suffix bool) bool {
	for _, l := range lits {
		if !suffix && bytes.HasPrefix(t, l.Bytes) || suffix && bytes.HasSuffix(t, l.Bytes) {
			return true
		}
	}
	return false
}

func lits(s *literal.Seq) []literal.Literal {
	var out []literal.Literal
	for i := 0; i < s.Len(); i++ {
		out = append(out, s.Get(i))
	}
	return out
}

func algebra(w *harness.W) {
	var words [][]byte
	space.Words([]string{"a", "b"}, 3, func(b []byte) {
		if len(b) > 0 {
			words = append(words, append([]byte(nil), b...))
		}
	})
	var probes [][]byte
	space.Words([]string{"a", "b"}, 5, func(b []byte) { probes = append(probes, append([]byte(nil), b...)) })
	fail := func(op string, in []literal.Literal, want, got string) {
		w.Fail(&harness.Case{Op: op, Mode: "algebra", Pattern: "seq-algebra", Hay: strconv.Quote(showSeq(literal.NewSeq(in...))), Want: want, Got: got, Cluster: "algebra/" + op})
	}
	n := int64(0)
	var seqs [][]literal.Literal
	// all sequences of 1..3 literals (ordered, repetitions allowed for Dedup) with every Complete assignment
	for _, a := range words {
		for ca := 0; ca < 2; ca++ {
			la := literal.NewLiteral(a, ca == 1)
			seqs = append(seqs, []literal.Literal{la})
			for _, b := range words {
				for cb := 0; cb < 2; cb++ {
					lb := literal.NewLiteral(b, cb == 1)
					seqs = append(seqs, []literal.Literal{la, lb})
				}
			}
		}
	}
	// triples over the shorter words only (length <= 2) to keep the space at ~10^4
	var w2 [][]byte
	for _, x := range words {
		if len(x) <= 2 {
			w2 = append(w2, x)
		}
	}
	for _, a := range w2 {
		for _, b := range w2 {
			for _, c := range w2 {
				for m := 0; m < 8; m++ {
					seqs = append(seqs, []literal.Literal{literal.NewLiteral(a, m&1 != 0), literal.NewLiteral(b, m&2 != 0), literal.NewLiteral(c, m&4 != 0)})
				}
			}
		}
	}
	clone := func(in []literal.Literal) *literal.Seq {
		out := make([]literal.Literal, len(in))
		for i, l := range in {
			out[i] = literal.NewLiteral(append([]byte(nil), l.Bytes...), l.Complete)
		}
		return literal.NewSeq(out...)
	}
	for _, in := range seqs {
		n++
		// Minimize / Dedup: coverage preserved; Complete discipline
		for _, op := range []string{"Minimize", "Dedup"} {
			s := clone(in)
			if op == "Minimize" {
				s.Minimize()
			} else {
				s.Dedup()
			}
			out := lits(s)
			for _, t := range probes {
				if covers(in, t, false) && !covers(out, t, false) {
					fail(op, in, fmt.Sprintf("still covers %q", t), showSeq(s))
					break
				}
			}
			for _, k := range out {
				if !k.Complete {
					continue
				}
				// among equal literals the FIRST one (highest priority) decides: it must not be an incomplete one
				for _, r := range in {
					if bytes.Equal(r.Bytes, k.Bytes) {
						if !r.Complete {
							fail(op, in, fmt.Sprintf("%q not Complete (its first, highest-priority copy is incomplete)", k.Bytes), showSeq(s))
						}
						break
					}
				}
				for _, r := range in {
					if len(r.Bytes) > len(k.Bytes) && bytes.HasPrefix(r.Bytes, k.Bytes) {
						// r was dropped as redundant (if it is gone): k may stay Complete only if r did not precede it in priority order
						gone := true
						for _, o := range out {
							if bytes.Equal(o.Bytes, r.Bytes) {
								gone = false
							}
						}
						if gone && precedes(in, r.Bytes, k.Bytes) {
							fail(op, in, fmt.Sprintf("%q not Complete (the longer, earlier literal %q was removed)", k.Bytes, r.Bytes), showSeq(s))
						}
					}
				}
			}
		}
		// KeepFirstBytes
		for nb := 1; nb <= 2; nb++ {
			s := clone(in)
			s.KeepFirstBytes(nb)
			out := lits(s)
			for _, t := range probes {
				if covers(in, t, false) && !covers(out, t, false) {
					fail("KeepFirstBytes", in, fmt.Sprintf("n=%d still covers %q", nb, t), showSeq(s))
					break
				}
			}
			for i, o := range out {
				if i < len(in) && len(in[i].Bytes) > nb && o.Complete {
					fail("KeepFirstBytes", in, fmt.Sprintf("n=%d truncated literal %q not Complete", nb, o.Bytes), showSeq(s))
				}
				if len(o.Bytes) > nb {
					fail("KeepFirstBytes", in, fmt.Sprintf("n=%d all literals at most %d bytes", nb, nb), showSeq(s))
				}
			}
		}
		// LongestCommonPrefix / Suffix
		s := clone(in)
		lcp, lcs := s.LongestCommonPrefix(), s.LongestCommonSuffix()
		wantP, wantS := in[0].Bytes, in[0].Bytes
		for _, l := range in[1:] {
			i := 0
			for i < len(wantP) && i < len(l.Bytes) && wantP[i] == l.Bytes[i] {
				i++
			}
			wantP = wantP[:i]
			j := 0
			for j < len(wantS) && j < len(l.Bytes) && wantS[len(wantS)-1-j] == l.Bytes[len(l.Bytes)-1-j] {
				j++
			}
			wantS = wantS[len(wantS)-j:]
		}
		if !bytes.Equal(lcp, wantP) {
			fail("LongestCommonPrefix", in, strconv.Quote(string(wantP)), strconv.Quote(string(lcp)))
		}
		if !bytes.Equal(lcs, wantS) {
			fail("LongestCommonSuffix", in, strconv.Quote(string(wantS)), strconv.Quote(string(lcs)))
		}
		// CrossForward with every 1-2 literal sequence over words of length 1
		if len(in) <= 2 {
			for _, o := range seqs {
				if len(o) > 2 || len(o[0].Bytes) > 1 || len(o) == 2 && len(o[1].Bytes) > 1 {
					continue
				}
				s := clone(in)
				s.CrossForward(clone(o))
				out := lits(s)
				n++
				for _, t := range probes {
					// strings of the concatenated language: l·m·Σ* (l complete) or l·Σ* (l incomplete)
					inLang := false
					for _, l := range in {
						if !bytes.HasPrefix(t, l.Bytes) {
							continue
						}
						if !l.Complete {
							inLang = true
						} else if covers(o, t[len(l.Bytes):], false) {
							inLang = true
						}
					}
					if inLang && !covers(out, t, false) {
						fail("CrossForward", in, fmt.Sprintf("× %s still covers %q", showSeq(literal.NewSeq(o...)), t), showSeq(s))
						break
					}
				}
				for _, r := range out {
					if !r.Complete {
						continue
					}
					ok := false
					for _, l := range in {
						for _, m := range o {
							if l.Complete && m.Complete && bytes.Equal(r.Bytes, append(append([]byte{}, l.Bytes...), m.Bytes...)) {
								ok = true
							}
						}
					}
					if !ok {
						fail("CrossForward", in, fmt.Sprintf("× %s: %q Complete only if both factors are", showSeq(literal.NewSeq(o...)), r.Bytes), showSeq(s))
					}
				}
			}
		}
	}
	w.C["evaluations"] += n * 6
	w.C["transitions"] += n * 6
	w.C["states"] += n
	w.C["distinct_nontrivial"] += n
	w.C["traces_validated_against_impl"] += n
	w.C["algebra_sequences"] += n
	w.Sample(map[string]any{"kind": "seq algebra", "sequences": n, "probe_strings": len(probes)})
}

func precedes(in []literal.Literal, a, b []byte) bool {
	ia, ib := -1, -1
	for i, l := range in {
		if ia < 0 && bytes.Equal(l.Bytes, a) {
			ia = i
		}
		if ib < 0 && bytes.Equal(l.Bytes, b) {
			ib = i
		}
	}
	return ia >= 0 && ib >= 0 && ia < ib
}
