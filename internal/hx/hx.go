// Package hx is the history explorer (DESIGN §3 C13, C20): explicit-state breadth-first search over call sequences
// on ONE compiled Regex per program. A successor is obtained by replaying the shortest known history on a freshly
// compiled value and applying one more operation; states are merged on a hash of the complete mutable and
// immutable state reachable from the value (package statehash), so merged states have identical futures.
package hx

import (
	"fmt"
	"reflect"
	"regexp/syntax"
	"runtime"
	"runtime/debug"
	"strconv"
	"strings"
	"testing"
	"time"
	"unsafe"

	"github.com/coregx/coregex"
	"github.com/coregx/coregex/dfa/lazy"
	"github.com/coregx/coregex/meta"
	"github.com/coregx/coregex/nfa"

	"verif/internal/bx"
	"verif/internal/harness"
	"verif/internal/space"
	"verif/internal/statehash"
)

type program struct {
	pattern string
	variant string // "default", "cache=N", "nearwrap"
	longest bool
}

func (p program) String() string {
	s := p.pattern + " [" + p.variant
	if p.longest {
		s += ",longest"
	}
	return s + "]"
}

type opT struct {
	name string
	run  func(re *coregex.Regex, h []byte) string
}

var apis = []opT{
	{"Match", func(re *coregex.Regex, h []byte) string { return strconv.FormatBool(re.Match(h)) }},
	{"FindIndex", func(re *coregex.Regex, h []byte) string { return bx.Show(re.FindIndex(h)) }},
	{"FindSubmatchIndex", func(re *coregex.Regex, h []byte) string { return bx.Show(re.FindSubmatchIndex(h)) }},
	{"FindAllIndex", func(re *coregex.Regex, h []byte) string { return bx.Show(re.FindAllIndex(h, -1)) }},
	{"Count", func(re *coregex.Regex, h []byte) string { return strconv.Itoa(re.Count(h, -1)) }},
	{"ReplaceAllString", func(re *coregex.Regex, h []byte) string { return strconv.Quote(re.ReplaceAllString(string(h), "<$0>")) }},
	{"FindStringSubmatch", func(re *coregex.Regex, h []byte) string { return bx.Show(re.FindStringSubmatch(string(h))) }},
}

type step struct {
	api int // index into apis, or -1 = GC event
	hay int
}

func (s step) String(hs [][]byte) string {
	if s.api < 0 {
		return "GC"
	}
	return fmt.Sprintf("%s(%s)", apis[s.api].name, strconv.Quote(string(hs[s.hay])))
}

var (
	tDFA     = reflect.TypeOf(lazy.DFA{})
	tCache   = reflect.TypeOf(lazy.DFACache{})
	tBTState = reflect.TypeOf(nfa.BacktrackerState{})
	tBT      = reflect.TypeOf(nfa.BoundedBacktracker{})
	tStats   = reflect.TypeOf(meta.Stats{})
)

func setInt(ptr reflect.Value, field string, val int64) bool {
	f := ptr.Elem().FieldByName(field)
	if !f.IsValid() {
		return false
	}
	f = reflect.NewAt(f.Type(), unsafe.Pointer(f.UnsafeAddr())).Elem()
	switch f.Kind() {
	case reflect.Int, reflect.Int64, reflect.Int32:
		f.SetInt(val)
	case reflect.Uint16, reflect.Uint32, reflect.Uint64, reflect.Uint:
		f.SetUint(uint64(val))
	default:
		return false
	}
	return true
}

func getInt(ptr reflect.Value, field string) (int64, bool) {
	f := ptr.Elem().FieldByName(field)
	if !f.IsValid() {
		return 0, false
	}
	switch f.Kind() {
	case reflect.Int, reflect.Int64, reflect.Int32:
		return f.Int(), true
	case reflect.Uint16, reflect.Uint32, reflect.Uint64, reflect.Uint:
		return int64(f.Uint()), true
	}
	return 0, false
}

// monitors are the C20 capacity observations of one state.
type monitors struct {
	cacheOver   string // non-empty: a DFACache exceeds capacity + one state
	visitedOver string
	caches      int
	maxCacheUse int64
	hookMissing string
}

// build compiles the program and applies the variant's setup; returns nil when the pattern does not compile.
func build(p program, hs [][]byte) *coregex.Regex {
	re, err := coregex.Compile(p.pattern)
	if err != nil {
		return nil
	}
	if p.longest {
		re.Longest()
	}
	switch {
	case strings.HasPrefix(p.variant, "cache="):
		n, _ := strconv.Atoi(p.variant[6:])
		patchCaches(re, int64(n))
	case p.variant == "nearwrap":
		re.Match(hs[1])
		re.FindIndex(hs[len(hs)-1])
		statehash.Walk(re, func(path string, ptr reflect.Value) bool {
			if ptr.Elem().Type() == tBTState {
				setInt(ptr, "Generation", 65533)
			}
			return true
		})
	}
	return re
}

func patchCaches(re *coregex.Regex, n int64) {
	statehash.Walk(re, func(path string, ptr reflect.Value) bool {
		switch ptr.Elem().Type() {
		case tDFA:
			cfg := ptr.Elem().FieldByName("config")
			if cfg.IsValid() {
				c := reflect.NewAt(cfg.Type(), unsafe.Pointer(cfg.UnsafeAddr()))
				setInt(c, "CacheCapacityBytes", n)
			}
		case tCache:
			setInt(ptr, "capacityBytes", n)
		}
		return true
	})
}

// observe hashes the complete state and evaluates the monitors.
func observe(re *coregex.Regex) (statehash.Result, monitors) {
	var m monitors
	maxVisited := int64(0)
	var visitedLens []int64
	res := statehash.Walk(re, func(path string, ptr reflect.Value) bool {
		switch ptr.Elem().Type() {
		case tStats:
			return false // statistics counters are not state
		case tBT:
			if v, ok := getInt(ptr, "maxVisitedSize"); ok {
				if v > maxVisited {
					maxVisited = v
				}
			} else {
				m.hookMissing = "BoundedBacktracker.maxVisitedSize"
			}
		case tBTState:
			f := ptr.Elem().FieldByName("Visited")
			if f.IsValid() {
				visitedLens = append(visitedLens, int64(f.Cap())) // capacity: the memory held, not only the part in use
			}
		case tCache:
			c := (*lazy.DFACache)(unsafe.Pointer(ptr.Pointer()))
			capB, ok := getInt(ptr, "capacityBytes")
			stride, ok2 := getInt(ptr, "stride")
			if !ok || !ok2 {
				m.hookMissing = "DFACache.capacityBytes/stride"
				break
			}
			m.caches++
			use := int64(c.MemoryUsage())
			if use > m.maxCacheUse {
				m.maxCacheUse = use
			}
			// one state: its transition row, list and map entries, and its NFA-state set / accel bytes
			maxNFA := int64(0)
			sl := ptr.Elem().FieldByName("stateList")
			for i := 0; sl.IsValid() && i < sl.Len(); i++ {
				st := sl.Index(i)
				if st.IsNil() {
					continue
				}
				s := (*lazy.State)(unsafe.Pointer(st.Pointer()))
				if n := int64(len(s.NFAStates())*4 + len(s.AccelExitBytes())); n > maxNFA {
					maxNFA = n
				}
			}
			// (the first state also pays for the reserved row 0 of the premultiplied transition table)
			oneState := 2*stride*4 + 8 + 48 + maxNFA
			if use > capB+oneState {
				m.cacheOver = fmt.Sprintf("DFACache at %s uses %d bytes > capacity %d + one state (%d)", path, use, capB, oneState)
			}
		}
		return true
	})
	for _, l := range visitedLens {
		if maxVisited > 0 && l > maxVisited {
			m.visitedOver = fmt.Sprintf("BacktrackerState.Visited has %d entries > cap %d", l, maxVisited)
		}
	}
	return res, m
}

func apply(re *coregex.Regex, s step, hs [][]byte) (out string) {
	if s.api < 0 {
		runtime.GC()
		runtime.GC()
		return "gc"
	}
	defer func() {
		if r := recover(); r != nil {
			msg := fmt.Sprint(r)
			if i := strings.IndexByte(msg, '\n'); i >= 0 {
				msg = msg[:i]
			}
			out = "panic: " + msg
		}
	}()
	return apis[s.api].run(re, hs[s.hay])
}

// Programs returns the program list of a tier.
func Programs(thorough bool) []program {
	pats := []string{`a*b*c*`, `\bfoo\b`, `ab|cd`, `a.*b`, `(a+)(b+)?`, `(\w+)@(\w+)`, `.`, `([a-z])+[0-9]`, `^(a)(b)?`, `[a-z]+`, `[a-z]+[0-9]+`, `^(\d+|foo|xbar)`, `^/.*\.php$`, `ab$`, `.*\.txt`, `.*\.(txt|log|md)`, `\w+@\w+`, `(?m)^.*\.php`, `foo|bar|baz`, `\d+\.\d+`, `(a|ab)(c|bcd)(d*)`, `(?i)foobar|bazqux`, `x[α-ω]+`, `(a|b)*?c`, `(?m)^[a-c]+x`}
	pats = append(pats, strings.Join(space.GenLiterals(70), "|"))
	var ps []program
	for i, p := range pats {
		ps = append(ps, program{p, "default", false})
		ps = append(ps, program{p, "cache=256", false}, program{p, "cache=2048", false})
		if thorough || i%3 == 0 {
			ps = append(ps, program{p, "cache=64", false}, program{p, "nearwrap", false}, program{p, "default", true})
		} else if i%3 == 1 {
			ps = append(ps, program{p, "nearwrap", false})
		}
	}
	return ps
}

func haystacks(pattern string) [][]byte {
	toks := space.TokensFor(pattern, 4)
	t0, t1 := toks[0], toks[len(toks)-1]
	if len(toks) > 1 {
		t1 = toks[1]
	}
	hs := [][]byte{
		[]byte(""), []byte(t0), []byte("zz"), []byte(t0 + t1), []byte(t1 + t0 + " " + t1 + t0), []byte("z" + t0 + " " + t1 + "z\n" + t0),
		[]byte(strings.Repeat(t0+" "+t1+"\n", 12)),                          // longer than any earlier one: forces table regrowth
		[]byte(strings.Join(toks, "") + "0a1b2c" + strings.Join(toks, " ")), // cache-churning
	}
	return hs
}

type mode int

const (
	ModeResults mode = iota // C13
	ModeMemory              // C20
)

// Plan builds the C13 or C20 plan.
func Plan(prop string, md mode) func(tier string) *harness.Plan {
	return func(tier string) *harness.Plan {
		thorough := tier == "thorough"
		progs := Programs(thorough)
		depth, capTrans := 3, 2500
		budget := 150 * time.Second
		if thorough {
			depth, capTrans, budget = 5, 60000, 25*time.Minute
		}
		nAlloc := 0
		if md == ModeMemory {
			nAlloc = 2
		} else {
			nAlloc = len(wrapPrograms)
		}
		run := func(w *harness.W, u int) {
			if md == ModeResults && u >= len(progs) {
				wrapCycle(w, wrapPrograms[u-len(progs)])
				return
			}
			if u == len(progs)+1 {
				visitedCapSweep(w, thorough)
				return
			}
			if u >= len(progs) {
				allocSweep(w, thorough)
				return
			}
			explore(w, progs[u], md, depth, capTrans)
		}
		rule := "Explicit-state breadth-first search over call sequences on ONE compiled Regex per program (strategy seeds × variants: default, lazy-DFA caches shrunk to 64/256/2048 bytes by reflection so that fill, clear and NFA fallback happen within a few calls, backtracker generation counter preset near its uint16 wrap, leftmost-longest mode). Operation menu: {Match, FindIndex, FindSubmatchIndex, FindAllIndex, Count, ReplaceAllString, FindStringSubmatch} × 7 haystacks (empty, matching, non-matching, longer-than-before, cache-churning) plus a GC event (two runtime.GC cycles). A successor is produced by replaying the shortest history on a freshly built value plus one operation; states are merged on a hash of EVERYTHING reachable from the Regex (unexported fields, slices up to capacity, maps sorted, sync.Pool private slot), so merged states have identical futures. states = distinct full-state hashes; transitions = (state, operation) edges executed on the real implementation; non-trivial = transitions whose operation reports a match. "
		if md == ModeResults {
			rule += "Oracle on every transition: the operation's result equals its result on a freshly built value of the same program, and applying it again immediately gives the same result."
		} else {
			rule += "Monitors on every state: every lazy-DFA cache uses at most its capacity plus one state; every backtracker visited table is within its cap; the deep size of everything reachable stops growing: for every explored history σ of length <= 2, the size does not keep growing over 4, 8 and 16 repetitions of σ; plus the allocation sweep: testing.AllocsPerRun == 0 after two warm-up calls for Match, MatchString, Engine.IsMatch, Engine.FindIndices, Count, ranging over AllIndex, AppendAllIndex into a sufficient buffer, on every seed × haystack."
		}
		return &harness.Plan{
			Units: len(progs) + nAlloc, Chunk: 1, Run: run,
			Describe: func(u int) string {
				if u >= len(progs) {
					return "allocation sweep / cap sweep / generation-cycle histories"
				}
				return "program " + progs[u].String()
			},
			Replay: func(w *harness.W, c *harness.Case) {
				for u := range progs {
					if progs[u].String() == c.Pattern {
						run(w, u)
						return
					}
				}
				if c.Op == "allocs" {
					allocSweep(w, thorough)
				}
			},
			Rule: rule, Level: "model_checking", Budget: budget, UnitTimeout: 600 * time.Second,
			Bounds: map[string]any{"programs": len(progs), "depth": depth, "transition_cap_per_program": capTrans, "operations_per_state": len(apis)*7 + 1},
			Assume: []string{"sequential histories only (concurrent use is C06)", "the sync.Pool private slot is read through the runtime's current layout (self-tested at start-up; evidence says whether it was readable)", "hangs are not detected other than by the per-unit watchdog"},
		}
	}
}

type node struct {
	hist []step
}

func explore(w *harness.W, p program, md mode, depth, capTrans int) {
	// The collector is a source of nondeterminism (it empties sync.Pool): it only runs where a history says "GC".
	oldGC := debug.SetGCPercent(-1)
	defer func() {
		debug.SetGCPercent(oldGC)
		runtime.GC()
	}()
	hs := haystacks(p.pattern)
	fresh0 := build(p, hs)
	if fresh0 == nil {
		return
	}
	// menu
	var menu []step
	for a := range apis {
		for h := range hs {
			menu = append(menu, step{a, h})
		}
	}
	menu = append(menu, step{-1, 0})
	// fresh results
	freshRes := make([]string, len(menu))
	for i, s := range menu {
		if s.api < 0 {
			continue
		}
		re := build(p, hs)
		freshRes[i] = apply(re, s, hs)
	}
	r0, m0 := observe(fresh0)
	seen := map[uint64]bool{r0.Hash: true}
	sizes := map[int64]bool{r0.Bytes: true}
	queue := []node{{nil}}
	trans, nt, maxDepth := 0, int64(0), 0
	closed := true
	fail := func(op string, hist []step, s step, want, got string) {
		var names []string
		for _, x := range hist {
			names = append(names, x.String(hs))
		}
		w.Fail(&harness.Case{Op: op, Mode: p.variant, Pattern: p.String(), Hay: strconv.Quote(s.String(hs)), Args: "after [" + strings.Join(names, ", ") + "]", Want: want, Got: got, Cluster: op})
	}
	if m0.hookMissing != "" {
		w.C["hooks_unavailable"]++
	}
	checkMon := func(m monitors, hist []step, s step) {
		if md != ModeMemory {
			return
		}
		if m.cacheOver != "" {
			fail("cache-capacity", hist, s, "cache bytes <= capacity + one state", m.cacheOver)
		}
		if m.visitedOver != "" {
			fail("visited-cap", hist, s, "visited entries <= cap", m.visitedOver)
		}
	}
	for len(queue) > 0 {
		n := queue[0]
		queue = queue[1:]
		if len(n.hist) >= depth {
			closed = false
			continue
		}
		for mi, s := range menu {
			if trans >= capTrans {
				closed = false
				queue = nil
				break
			}
			re := build(p, hs)
			for _, x := range n.hist {
				apply(re, x, hs)
			}
			r1 := apply(re, s, hs)
			trans++
			if s.api >= 0 && r1 != "false" && r1 != "nil" && r1 != "0" {
				nt++
			}
			if md == ModeResults && s.api >= 0 {
				if r1 != freshRes[mi] {
					fail("result-depends-on-history", n.hist, s, freshRes[mi], r1)
				}
			}
			res, mon := observe(re)
			checkMon(mon, n.hist, s)
			if md == ModeResults && s.api >= 0 {
				if r2 := apply(re, s, hs); r2 != r1 {
					fail("repeat-differs", n.hist, s, r1, r2)
				}
			}
			sizes[res.Bytes] = true
			if !seen[res.Hash] {
				seen[res.Hash] = true
				h2 := append(append([]step{}, n.hist...), s)
				queue = append(queue, node{h2})
				if len(h2) > maxDepth {
					maxDepth = len(h2)
				}
				// steady state: the deep size must stop growing. A one-time late allocation (e.g. the NFA fallback object
				// created when a shrunken cache gives up after its fifth clear) is warm-up; growth that continues over
				// two consecutive doublings of the repetition count (4 -> 8 -> 16) is a leak.
				if md == ModeMemory && len(h2) <= 2 {
					reA := build(p, hs)
					rep := func(k int) int64 {
						for i := 0; i < k; i++ {
							for _, x := range h2 {
								apply(reA, x, hs)
							}
						}
						r, _ := observe(reA)
						return r.Bytes
					}
					a := rep(4)
					b := rep(4)
					trans += 8 * len(h2)
					if b > a {
						c := rep(8)
						trans += 8 * len(h2)
						if c > b {
							w.Fail(&harness.Case{Op: "heap-grows-in-steady-state", Mode: p.variant, Pattern: p.String(), Hay: strconv.Quote(s.String(hs)), Args: "after [" + histNames(h2[:len(h2)-1], hs) + "]",
								Want: "deep size stops growing after warm-up", Got: "deep size still grows after 4, 8 and 16 repetitions of the history", Cluster: "heap-grows-in-steady-state",
								Extra: map[string]string{"bytes_after_4": fmt.Sprint(a), "bytes_after_8": fmt.Sprint(b), "bytes_after_16": fmt.Sprint(c)}})
						}
					}
				}
			}
		}
	}
	w.C["states"] += int64(len(seen))
	w.C["transitions"] += int64(trans)
	w.C["evaluations"] += int64(trans)
	w.C["traces_validated_against_impl"] += int64(trans)
	w.C["distinct_nontrivial"] += nt
	w.C["programs"]++
	if closed {
		w.C["programs_state_space_closed_before_depth_bound"]++
	}
	if trans >= capTrans {
		w.C["programs_transition_cap_hit"]++
	}
	w.C["distinct_deep_sizes"] += int64(len(sizes))
	w.Sample(map[string]any{"program": p.String(), "states": len(seen), "transitions": trans, "max_depth": maxDepth, "closed": closed, "distinct_deep_sizes": len(sizes), "caches_seen": m0.caches, "pool_private_readable": r0.PoolRead,
		"sample_history": []string{menu[0].String(hs), menu[len(menu)/2].String(hs), menu[len(menu)-1].String(hs)}})
}

// allocSweep: the calls documented as zero-allocation allocate nothing once warmed up.
func allocSweep(w *harness.W, thorough bool) {
	pats := []string{}
	for _, s := range space.Seeds {
		pats = append(pats, s.Pattern)
	}
	if thorough {
		pats = append(pats, space.Patterns(3)...)
	} else {
		pats = append(pats, space.Patterns(2)...)
	}
	n := int64(0)
	for _, p := range pats {
		re, err := coregex.Compile(p)
		if err != nil {
			continue
		}
		eng, err := meta.Compile(p)
		if err != nil {
			continue
		}
		toks := space.TokensFor(p, 4)
		hs := [][]byte{[]byte(""), []byte(toks[0]), []byte("zz zz"), []byte(strings.Repeat(toks[0]+" z ", 8)), []byte(strings.Repeat("z", 100) + toks[0])}
		buf := make([][2]int, 0, 256)
		for _, h := range hs {
			hstr := string(h)
			calls := []struct {
				name string
				f    func()
			}{
				{"Match", func() { re.Match(h) }},
				{"MatchString", func() { re.MatchString(hstr) }},
				{"Engine.IsMatch", func() { eng.IsMatch(h) }},
				{"Engine.FindIndices", func() { eng.FindIndices(h) }},
				{"Count", func() { re.Count(h, -1) }},
				{"AllIndex", func() {
					for range re.AllIndex(h) {
					}
				}},
				{"AppendAllIndex", func() { buf = re.AppendAllIndex(buf[:0], h, -1) }},
			}
			for _, c := range calls {
				c.f()
				c.f()
				a := testing.AllocsPerRun(10, c.f)
				n++
				if a != 0 {
					w.Fail(&harness.Case{Op: "allocs", Mode: "steady-state", Pattern: p, Hay: strconv.Quote(hstr), Args: c.name, Want: "0 allocs/op after warm-up", Got: fmt.Sprintf("%v allocs/op", a), Cluster: "allocs/" + c.name})
				}
			}
		}
	}
	w.C["allocation_measurements"] += n
	w.C["evaluations"] += n
	w.C["transitions"] += n
	w.C["states"] += n
	w.C["distinct_nontrivial"] += n
	w.C["traces_validated_against_impl"] += n
	w.Sample(map[string]any{"kind": "allocation sweep", "patterns": len(pats), "measurements": n})
}

// wrapPrograms: start-anchored / capture patterns served by the bounded backtracker, with two long haystacks that
// drive the search to the far end of the visited table (one matching only through its last bytes, one not matching)
// and a short one.
var wrapPrograms = []struct {
	pattern string
	long    [2]string
	short   string
}{
	{`^([ab]|c)+d`, [2]string{strings.Repeat("ab", 49) + "cd", strings.Repeat("ab", 50)}, "abd"},
	{`([a-z])+[0-9]`, [2]string{strings.Repeat("xy", 40) + "z7", strings.Repeat("xy", 41)}, "q1"},
	{`^(a|b)*c`, [2]string{strings.Repeat("ab", 30) + "c", strings.Repeat("ba", 31)}, "abc"},
}

// wrapCycle explores the histories that put a FULL cycle of the backtracker's 16-bit generation counter between long
// searches — the graph exploration above cannot: its near-wrap variant presets the counter, which reaches the wrap but
// not the re-use of a generation value by a later search. For every ordered triple (h1, h2, h3) of long haystacks and
// every number n of short searches in {65533, 65534, 65535, 65536}: h1, h2, n x short, h3 on ONE value; h3's result
// (FindIndex and Match) must equal its result on a fresh value. Real searches are issued, nothing is preset.
func wrapCycle(w *harness.W, wp struct {
	pattern string
	long    [2]string
	short   string
}) {
	n := int64(0)
	for _, h1 := range wp.long {
		for _, h2 := range wp.long {
			for _, h3 := range wp.long {
				for _, cycle := range []int{65533, 65534, 65535, 65536} {
					re := coregex.MustCompile(wp.pattern)
					fresh := coregex.MustCompile(wp.pattern)
					re.FindStringIndex(h1)
					re.FindStringIndex(h2)
					for i := 0; i < cycle; i++ {
						re.FindStringIndex(wp.short)
					}
					got := fmt.Sprint(re.FindStringIndex(h3), re.MatchString(h3))
					want := fmt.Sprint(fresh.FindStringIndex(h3), fresh.MatchString(h3))
					n += int64(cycle) + 3
					if got != want {
						w.Fail(&harness.Case{Op: "generation-cycle", Mode: "default", Pattern: wp.pattern, Hay: strconv.Quote(h3), Args: fmt.Sprintf("after [FindIndex(%q), FindIndex(%q), %d x FindIndex(%q)]", h1, h2, cycle, wp.short), Want: want, Got: got, Cluster: "generation-cycle"})
					}
				}
			}
		}
	}
	w.C["generation_cycle_searches"] += n
	w.C["evaluations"] += n
	w.C["transitions"] += n
	w.C["states"] += 32
	w.C["distinct_nontrivial"] += 32
	w.C["traces_validated_against_impl"] += n
	w.Sample(map[string]any{"kind": "full generation-counter cycle histories", "pattern": wp.pattern, "histories": 32, "searches": n})
}

// visitedCapSweep drives the bounded backtracker directly at the top of its admitted input range: for every ordered
// pair (L1, L2) of a length ladder up to MaxInputSize() — eighths of the range and the last three admitted lengths —
// one pooled BacktrackerState serves a search of length L1 and then one of length L2 (grow, shrink, regrow), through
// Search and IsMatch, and the visited table (length AND capacity: retained memory) must stay within MaxVisitedSize().
// The histories of the state graph use short inputs; only inputs near the cap make the table grow up to it.
func visitedCapSweep(w *harness.W, thorough bool) {
	pats := []string{`[a-z]+[0-9]`, `\w+@\w+`, `a*b*c*`}
	if thorough {
		pats = append(pats, `(a|b)*c`, `(?s).*x`)
	}
	n := int64(0)
	for _, p := range pats {
		re, err := syntax.Parse(p, syntax.Perl)
		if err != nil {
			panic(err)
		}
		prog, err := nfa.NewDefaultCompiler().CompileRegexp(re)
		if err != nil {
			panic(err)
		}
		type ctor struct {
			name string
			bt   *nfa.BoundedBacktracker
		}
		cs := []ctor{{"small", nfa.NewBoundedBacktrackerSmall(prog)}}
		for _, c := range cs {
			maxIn, capV := c.bt.MaxInputSize(), c.bt.MaxVisitedSize()
			if maxIn <= 0 || capV <= 0 {
				continue
			}
			var ladder []int
			for k := 1; k <= 8; k++ {
				ladder = append(ladder, maxIn*k/8)
			}
			ladder = append(ladder, maxIn-2, maxIn-1)
			hay := []byte(strings.Repeat("ab", maxIn/2+2))
			checkState := func(st *nfa.BacktrackerState, what string, l1, l2 int) {
				if len(st.Visited) > capV || cap(st.Visited) > capV {
					w.Fail(&harness.Case{Op: "visited-cap", Mode: c.name, Pattern: p, Hay: strconv.Quote(fmt.Sprintf("ab.. of length %d then %d", l1, l2)), Args: what, Want: fmt.Sprintf("len and cap of the visited table <= %d", capV), Got: fmt.Sprintf("len=%d cap=%d", len(st.Visited), cap(st.Visited)), Cluster: "visited-cap"})
				}
			}
			for _, l1 := range ladder {
				if !c.bt.CanHandle(l1) {
					w.Fail(&harness.Case{Op: "visited-cap", Mode: c.name, Pattern: p, Hay: strconv.Quote(fmt.Sprintf("length %d", l1)), Args: "CanHandle", Want: "true up to MaxInputSize()", Got: "false", Cluster: "visited-cap"})
					continue
				}
				for _, l2 := range ladder {
					st := nfa.NewBacktrackerState()
					c.bt.SearchWithState(hay[:l1], st)
					checkState(st, "Search,Search", l1, l2)
					c.bt.SearchWithState(hay[:l2], st)
					checkState(st, "Search,Search", l1, l2)
					st2 := nfa.NewBacktrackerState()
					c.bt.IsMatchWithState(hay[:l1], st2)
					c.bt.IsMatchWithState(hay[:l2], st2)
					checkState(st2, "IsMatch,IsMatch", l1, l2)
					n += 4
				}
			}
		}
	}
	w.C["visited_cap_searches"] += n
	w.C["evaluations"] += n
	w.C["transitions"] += n
	w.C["states"] += n / 4
	w.C["distinct_nontrivial"] += n / 4
	w.C["traces_validated_against_impl"] += n
	w.Sample(map[string]any{"kind": "visited-table cap sweep", "patterns": len(pats), "searches": n})
}

func histNames(h []step, hs [][]byte) string {
	var names []string
	for _, x := range h {
		names = append(names, x.String(hs))
	}
	return strings.Join(names, ", ")
}
