#!/bin/bash
# maintenance: run checks against a seeded change WITHOUT touching /repo: the change is applied in the scratch worktree
# /tmp/sc/mut (reset to /repo's HEAD first) and vf is built against that worktree.
#   usage: muttest.sh <patch.diff> <ID>...
cd /verif && . ./env.sh
patch="$1"; shift
git -C /tmp/sc/mut checkout -q --detach "$(git -C /repo rev-parse HEAD)" && git -C /tmp/sc/mut checkout -q -- . && git -C /tmp/sc/mut clean -fdq
git -C /tmp/sc/mut apply "$patch" || { echo "apply failed"; exit 2; }
"$VF_GO" build -modfile=/tmp/go.mut.mod -o "$VF_WORK/vf.mut" ./cmd/vf || exit 2
for id in "$@"; do
  out=$("$VF_WORK/vf.mut" check "$id" --tier "${TIER:-quick}" 2>&1)
  code=$?
  echo "$id exit=$code $(echo "$out" | grep -c '^VIOLATION') violation lines; $(echo "$out" | grep "^$id tier" | sed 's/.*failing=/failing=/')"
  echo "$out" | grep -A1 "^VIOLATION" | head -4 | cut -c1-300
done
git -C /tmp/sc/mut checkout -q -- .
