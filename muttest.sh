#!/bin/bash
# maintenance: run checks against a seeded change WITHOUT touching /repo and WITHOUT overwriting /verif/evidence:
# the change is applied in a scratch worktree (MUT_DIR, default /tmp/sc/mut; reset to /repo's HEAD first), vf is built
# against that worktree (-modfile), the overlay generators of C05/C06 read it too (VF_REPO), and evidence/replays go to
# $MUT_DIR.out.   usage: muttest.sh <patch.diff> <ID>...
cd "$(dirname "$0")" && . ./env.sh
patch="$1"; shift
MUT="${MUT_DIR:-/tmp/sc/mut}"; tag=$(basename "$MUT")
mkdir -p "$MUT.out"
[ -d "$MUT" ] || git -C /repo worktree add -q --detach "$MUT" HEAD
git -C "$MUT" checkout -q --detach "${MUT_BASE:-$(git -C /repo rev-parse HEAD)}" && git -C "$MUT" checkout -q -- . && git -C "$MUT" clean -fdq
git -C "$MUT" apply "$patch" || { echo "apply failed"; exit 2; }
sed "s#=> /repo#=> $MUT#" go.mod > "$MUT.go.mod"; cp go.sum "$MUT.go.sum"
export VF_REPO="$MUT" VF_MODFILE="$MUT.go.mod" VF_OUT="$MUT.out" VF_WORK_SUB="$tag"
"$VF_GO" build -modfile="$MUT.go.mod" -o "$VF_WORK/vf.$tag" ./cmd/vf || exit 2
for id in "$@"; do
  out=$("$VF_WORK/vf.$tag" check "$id" --tier "${TIER:-quick}" 2>&1)
  code=$?
  echo "$id exit=$code $(echo "$out" | grep -c '^VIOLATION') violation lines; $(echo "$out" | grep "^$id tier" | sed 's/.*failing=/failing=/')"
  echo "$out" | grep -A1 "^VIOLATION" | head -4 | cut -c1-300
done
git -C "$MUT" checkout -q -- .
