#!/bin/bash
# maintenance: run checks against a seeded change WITHOUT touching /repo and WITHOUT overwriting /verif/evidence:
# the change is applied in the scratch worktree /tmp/sc/mut (reset to /repo's HEAD first), vf is built against that
# worktree (-modfile), the overlay generators of C05/C06 read it too (VF_REPO), and evidence/replays go to /tmp/sc/out.
#   usage: muttest.sh <patch.diff> <ID>...
cd /verif && . ./env.sh
patch="$1"; shift
mkdir -p /tmp/sc/out
[ -d /tmp/sc/mut ] || git -C /repo worktree add -q --detach /tmp/sc/mut HEAD
git -C /tmp/sc/mut checkout -q --detach "$(git -C /repo rev-parse HEAD)" && git -C /tmp/sc/mut checkout -q -- . && git -C /tmp/sc/mut clean -fdq
git -C /tmp/sc/mut apply "$patch" || { echo "apply failed"; exit 2; }
sed 's#=> /repo#=> /tmp/sc/mut#' go.mod > /tmp/sc/go.mut.mod; cp go.sum /tmp/sc/go.mut.sum
export VF_REPO=/tmp/sc/mut VF_MODFILE=/tmp/sc/go.mut.mod VF_OUT=/tmp/sc/out VF_WORK_SUB=mut
"$VF_GO" build -modfile=/tmp/sc/go.mut.mod -o "$VF_WORK/vf.mut" ./cmd/vf || exit 2
for id in "$@"; do
  out=$("$VF_WORK/vf.mut" check "$id" --tier "${TIER:-quick}" 2>&1)
  code=$?
  echo "$id exit=$code $(echo "$out" | grep -c '^VIOLATION') violation lines; $(echo "$out" | grep "^$id tier" | sed 's/.*failing=/failing=/')"
  echo "$out" | grep -A1 "^VIOLATION" | head -4 | cut -c1-300
done
git -C /tmp/sc/mut checkout -q -- .
