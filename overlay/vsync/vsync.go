//go:build verif

// Package vsync replaces "sync" in the instrumented build: Pool is a deterministic pool whose operations are
// scheduling points. An item is handed from Put to the Get that obtains it through a per-slot atomic pointer, which
// creates exactly the happens-before edge sync.Pool guarantees (and no other); slot bookkeeping is kept in
// race-detector-invisible memory because only one logical thread runs at a time.
package vsync

import (
	realsync "sync"
	"sync/atomic"
	"unsafe"

	"github.com/coregx/coregex/vfhook/vsched"
)

// Re-exports used by the repository (only Pool is used today; the rest keep the package a drop-in).
type (
	Mutex     = realsync.Mutex
	RWMutex   = realsync.RWMutex
	Once      = realsync.Once
	WaitGroup = realsync.WaitGroup
)

const slots = 32

type box struct{ v any }

// Pool mirrors sync.Pool.
type Pool struct {
	New func() any

	real  realsync.Pool // pass-through outside an exploration
	slot  [slots]atomic.Pointer[box]
	full  [slots]bool // bookkeeping, scheduler-protected
	count int
	gen   int
}

// sync forgets the pool's contents when a new execution has started (package-level pools outlive one execution).
//
//go:norace
func (p *Pool) sync() {
	if g := vsched.Generation(); p.gen != g {
		p.gen = g
		for i := range p.full {
			p.full[i] = false
		}
		p.count = 0
	}
}

//go:norace
func (p *Pool) pick() int {
	for i := slots - 1; i >= 0; i-- {
		if p.full[i] {
			p.full[i] = false
			p.count--
			return i
		}
	}
	return -1
}

//go:norace
func (p *Pool) free() int {
	for i := 0; i < slots; i++ {
		if !p.full[i] {
			p.full[i] = true
			p.count++
			return i
		}
	}
	return -1
}

//go:norace
func (p *Pool) nonEmpty() bool { return p.count > 0 }

//go:norace
func (p *Pool) holds(d unsafe.Pointer) bool {
	for i := 0; i < slots; i++ {
		if p.full[i] {
			if b := p.slot[i].Load(); b != nil && dataPtr(b.v) == d {
				return true
			}
		}
	}
	return false
}

func dataPtr(v any) unsafe.Pointer {
	type eface struct{ t, d unsafe.Pointer }
	return (*eface)(unsafe.Pointer(&v)).d
}

// Get mirrors sync.Pool.Get.
func (p *Pool) Get() any {
	if !vsched.Active() || vsched.CurrentThread() < 0 {
		if p.real.New == nil {
			p.real.New = p.New
		}
		return p.real.Get()
	}
	vsched.Point(vsched.KPoolGet)
	p.sync()
	if p.nonEmpty() {
		// environment choice: the collector may have emptied the pool (a deviation)
		if vsched.EnvChoice(vsched.KPoolMiss, 2) == 0 {
			if i := p.pick(); i >= 0 {
				b := p.slot[i].Swap(nil)
				if b != nil {
					vsched.Acquire(dataPtr(b.v), "pooled object")
					return b.v
				}
			}
		}
	}
	if p.New != nil {
		v := p.New()
		vsched.Acquire(dataPtr(v), "pooled object")
		return v
	}
	return nil
}

// Put mirrors sync.Pool.Put.
func (p *Pool) Put(x any) {
	if !vsched.Active() || vsched.CurrentThread() < 0 {
		if p.real.New == nil {
			p.real.New = p.New
		}
		p.real.Put(x)
		return
	}
	vsched.Point(vsched.KPoolPut)
	p.sync()
	if x == nil {
		return
	}
	if p.holds(dataPtr(x)) {
		// handed back a second time: it would be handed out to two holders
		vsched.Report("ownership: thread " + vsched.Itoa(vsched.CurrentThread()) + " handed a pooled object back while the pool already holds it (double hand-back)")
	}
	vsched.Release(dataPtr(x))
	if i := p.free(); i >= 0 {
		p.slot[i].Store(&box{x})
	}
}
