//go:build verif

// Package vatomic replaces "sync/atomic" in the instrumented build: every operation is a scheduling point followed
// by the REAL atomic operation (so the race detector sees the program's own synchronisation unchanged).
package vatomic

import (
	"sync/atomic"
	"unsafe"

	"github.com/coregx/coregex/vfhook/vsched"
)

// Pointer mirrors atomic.Pointer[T].
type Pointer[T any] struct {
	p atomic.Pointer[T]
}

func (x *Pointer[T]) Load() *T {
	vsched.Point(vsched.KPtrLoad)
	return x.p.Load()
}

func (x *Pointer[T]) Store(v *T) {
	vsched.Point(vsched.KPtrStore)
	vsched.Release(unsafe.Pointer(v))
	x.p.Store(v)
}

func (x *Pointer[T]) Swap(v *T) *T {
	vsched.Point(vsched.KPtrSwap)
	vsched.Release(unsafe.Pointer(v))
	old := x.p.Swap(v)
	vsched.Acquire(unsafe.Pointer(old), "state object from an atomic slot")
	return old
}

func (x *Pointer[T]) CompareAndSwap(old, new *T) bool {
	vsched.Point(vsched.KPtrCAS)
	ok := x.p.CompareAndSwap(old, new)
	if ok {
		vsched.Release(unsafe.Pointer(new))
	}
	return ok
}

// AddUint64 mirrors atomic.AddUint64. Statistics counters are commutative increments that no code path reads back
// during a search, so they are not scheduling points (that would only multiply equivalent interleavings); they stay
// real atomic operations, so a counter turned into a plain increment is still seen by the race detector.
func AddUint64(addr *uint64, delta uint64) uint64 {
	return atomic.AddUint64(addr, delta)
}

func AddUint32(addr *uint32, delta uint32) uint32 {
	vsched.Point(vsched.KAdd)
	return atomic.AddUint32(addr, delta)
}

func AddInt64(addr *int64, delta int64) int64 {
	vsched.Point(vsched.KAdd)
	return atomic.AddInt64(addr, delta)
}

func LoadUint64(addr *uint64) uint64 {
	vsched.Point(vsched.KPtrLoad)
	return atomic.LoadUint64(addr)
}

func StoreUint64(addr *uint64, v uint64) {
	vsched.Point(vsched.KPtrStore)
	atomic.StoreUint64(addr, v)
}

// Plain re-exports (value types without methods that need interception in this code base).
type (
	Bool   = atomic.Bool
	Int32  = atomic.Int32
	Int64  = atomic.Int64
	Uint32 = atomic.Uint32
	Uint64 = atomic.Uint64
	Value  = atomic.Value
)
