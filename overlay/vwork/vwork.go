//go:build verif

// Package vwork is the deterministic work counter injected into the repository module by `go build -overlay`
// (DESIGN §3 C05): the generated overlay calls Tick at every function entry and at the head of every loop body of
// the library, so Count is the number of executed function entries + loop iterations — a deterministic proxy for
// time. When Count exceeds Limit, Tick panics with ErrLimit, which lets the explorer stop a search that is
// already far beyond linear.
package vwork

// Count is the number of ticks since the last Reset.
var Count int64

// Limit aborts the measured call when exceeded (0 = no limit).
var Limit int64

// ErrLimit is the panic value raised when Limit is exceeded.
type ErrLimit struct{}

func (ErrLimit) Error() string { return "vwork: work limit exceeded" }

// Tick counts one unit of work.
func Tick() {
	Count++
	if Limit > 0 && Count > Limit {
		Limit = 0
		panic(ErrLimit{})
	}
}

// Reset zeroes the counter and sets the limit.
func Reset(limit int64) {
	Count = 0
	Limit = limit
}
