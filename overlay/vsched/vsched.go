//go:build verif

// Package vsched is the controlled scheduler injected into the repository module by `go build -overlay` (DESIGN §3
// C06). Logical threads are goroutines; exactly one of them (or the scheduler) owns the "turn" at any time and all the
// others yield (runtime.Gosched) until the turn is theirs, so an execution is fully determined by its choice vector.
// The turn is a PLAIN variable touched only by //go:norace functions: the race detector neither sees the accesses nor
// derives any happens-before edge from the hand-off (Gosched creates none), so it sees only the program's own
// synchronisation. The workers run with GOMAXPROCS=1, where a hand-off is a goroutine switch (no system call; the
// first version parked threads on OS pipes with raw read/write calls, which cost ~5 ms per execution under load).
// VF_SX_HANDOFF=pipe selects that older mechanism (kept for cross-checking the two against each other).
package vsched

import (
	"os"
	"runtime"
	"sync/atomic"
	"syscall"
	"unsafe"
)

// turn: id of the logical thread that may run, or schedTurn for the scheduler loop (plain variable, see above).
var turn int

const schedTurn = -7

var usePipes = os.Getenv("VF_SX_HANDOFF") == "pipe"

//go:norace
func waitTurn(id int) {
	for turn != id {
		runtime.Gosched()
	}
}

// Point kinds.
const (
	KStart = iota
	KPoolGet
	KPoolPut
	KPtrSwap
	KPtrCAS
	KPtrLoad
	KPtrStore
	KAdd
	KPoolMiss // environment choice inside Pool.Get: the collector emptied the pool
)

// PointRec is one scheduling point of an execution.
type PointRec struct {
	Running         int   // thread that was running (-1 at the start / after a thread finished)
	Enabled         []int // canonical order: the running thread first if still enabled, then ascending ids
	Chosen          int   // index into Enabled
	Kind            int
	EnvAlternatives int // >0: an environment choice point with that many alternatives (Chosen indexes them)
}

// Exec is the record of one execution.
type Exec struct {
	Points   []PointRec
	Diverged bool   // a prefix choice was out of range
	Problem  string // ownership violation, deadlock, ...
}

type thread struct {
	id      int
	rfd     int
	wfd     int
	done    bool
	started bool
	fin     atomic.Uint32 // real atomic: the only happens-before edge from a logical thread to the caller of Run
}

var (
	active  bool
	threads []*thread
	cur     *thread
	schedR  int
	schedW  int
	prefix  []int
	exec    *Exec
	holdPtr [64]unsafe.Pointer // ownership bookkeeping: plain arrays (maps are race-instrumented by the runtime)
	holdBy  [64]int
	problem string
	gen     int // execution number
)

// Generation returns the number of the current execution.
//
//go:norace
func Generation() int { return gen }

//go:norace
func pipe() (int, int) {
	var fds [2]int
	if err := syscall.Pipe(fds[:]); err != nil {
		panic("vsched: pipe: " + err.Error())
	}
	return fds[0], fds[1]
}

var tok = [1]byte{1}

//go:norace
func rawWrite(fd int) {
	for {
		_, _, e := syscall.Syscall(syscall.SYS_WRITE, uintptr(fd), uintptr(unsafe.Pointer(&tok[0])), 1)
		if e == 0 {
			return
		}
		if e != syscall.EINTR && e != syscall.EAGAIN {
			panic("vsched: write failed")
		}
	}
}

//go:norace
func rawRead(fd int) {
	var b [1]byte
	for {
		n, _, e := syscall.Syscall(syscall.SYS_READ, uintptr(fd), uintptr(unsafe.Pointer(&b[0])), 1)
		if e == 0 && n == 1 {
			return
		}
		if e != 0 && e != syscall.EINTR && e != syscall.EAGAIN {
			panic("vsched: read failed")
		}
	}
}

// Active reports whether an exploration is running (shims are pass-through otherwise).
//
//go:norace
func Active() bool { return active }

// CurrentThread returns the id of the running logical thread (-1 outside an exploration).
//
//go:norace
func CurrentThread() int {
	if !active || cur == nil {
		return -1
	}
	return cur.id
}

// Point is called by a shim before each synchronisation operation: the running thread yields to the scheduler.
//
//go:norace
func Point(kind int) {
	if !active || cur == nil {
		return
	}
	me := cur
	me.lastKind(kind)
	if usePipes {
		rawWrite(schedW)
		rawRead(me.rfd)
		return
	}
	turn = schedTurn
	waitTurn(me.id)
}

var lastKind int

//go:norace
func (t *thread) lastKind(k int) { lastKind = k }

// EnvChoice is an environment choice point with n alternatives (0 = default). It costs a deviation when != 0.
//
//go:norace
func EnvChoice(kind, n int) int {
	if !active || cur == nil {
		return 0
	}
	i := len(exec.Points)
	c := 0
	if i < len(prefix) {
		c = prefix[i]
		if c < 0 || c >= n {
			exec.Diverged = true
			c = 0
		}
	}
	exec.Points = append(exec.Points, PointRec{Running: cur.id, Chosen: c, Kind: kind, EnvAlternatives: n})
	return c
}

// Acquire records that the running thread now holds p (obtained from a pool or an atomic slot); Release that it
// stored it back. A second thread obtaining a held object is an ownership violation.
//
//go:norace
func Acquire(p unsafe.Pointer, what string) {
	if !active || cur == nil || p == nil {
		return
	}
	free := -1
	for i := range holdPtr {
		if holdPtr[i] == p {
			if holdBy[i] != cur.id && problem == "" {
				problem = "ownership: thread " + itoa(cur.id) + " obtained a " + what + " that thread " + itoa(holdBy[i]) + " still holds"
			}
			holdBy[i] = cur.id
			return
		}
		if holdPtr[i] == nil && free < 0 {
			free = i
		}
	}
	if free >= 0 {
		holdPtr[free], holdBy[free] = p, cur.id
	}
}

// Report records an ownership problem found by a shim (the first one of an execution is kept).
//
//go:norace
func Report(msg string) {
	if active && problem == "" {
		problem = msg
	}
}

// Itoa is exported for the shims' messages.
//
//go:norace
func Itoa(i int) string { return itoa(i) }

//go:norace
func Release(p unsafe.Pointer) {
	if !active || cur == nil || p == nil {
		return
	}
	for i := range holdPtr {
		if holdPtr[i] == p {
			holdPtr[i] = nil
			return
		}
	}
}

//go:norace
func itoa(i int) string {
	if i < 0 {
		return "-" + itoa(-i)
	}
	if i < 10 {
		return string(rune('0' + i))
	}
	return itoa(i/10) + string(rune('0'+i%10))
}

// Run executes bodies as logical threads under the schedule given by the choice prefix (choice 0 afterwards).
//
//go:norace
func Run(choicePrefix []int, bodies []func()) *Exec {
	if active {
		panic("vsched: nested Run")
	}
	exec = &Exec{Points: make([]PointRec, 0, 256)}
	prefix = choicePrefix
	for i := range holdPtr {
		holdPtr[i] = nil
	}
	problem = ""
	gen++
	if usePipes {
		schedR, schedW = pipe()
	}
	turn = schedTurn
	threads = threads[:0]
	for i, b := range bodies {
		r, w := -1, -1
		if usePipes {
			r, w = pipe()
		}
		t := &thread{id: i, rfd: r, wfd: w}
		threads = append(threads, t)
		body := b
		go threadMain(t, body)
	}
	active = true
	running := -1
	for {
		var enabled []int
		if running >= 0 && !threads[running].done {
			enabled = append(enabled, running)
		}
		for _, t := range threads {
			if !t.done && t.id != running {
				enabled = append(enabled, t.id)
			}
		}
		if len(enabled) == 0 {
			break
		}
		i := len(exec.Points)
		c := 0
		if i < len(prefix) {
			c = prefix[i]
			if c < 0 || c >= len(enabled) {
				exec.Diverged = true
				c = 0
			}
		}
		run := running
		if run >= 0 && threads[run].done {
			run = -1
		}
		exec.Points = append(exec.Points, PointRec{Running: run, Enabled: enabled, Chosen: c, Kind: lastKind})
		next := threads[enabled[c]]
		cur = next
		running = next.id
		if usePipes {
			rawWrite(next.wfd) // wake it
			rawRead(schedR)    // wait until it yields (Point) or finishes
		} else {
			turn = next.id
			waitTurn(schedTurn)
		}
	}
	active = false
	cur = nil
	if usePipes {
		for _, t := range threads {
			syscall.Close(t.rfd)
			syscall.Close(t.wfd)
		}
		syscall.Close(schedR)
		syscall.Close(schedW)
	}
	exec.Problem = problem
	for _, t := range threads {
		joinThread(t)
	}
	return exec
}

// joinThread is instrumented on purpose: the atomic load pairs with the store in finishThread, so the caller of
// Run may read what the logical threads wrote (like a WaitGroup), without ordering the threads among themselves.
func joinThread(t *thread) {
	for t.fin.Load() == 0 {
	}
}

func finishThread(t *thread) { t.fin.Store(1) }

//go:norace
func threadMain(t *thread, body func()) {
	if usePipes {
		rawRead(t.rfd) // wait for the first wake-up
	} else {
		waitTurn(t.id)
	}
	runBody(body)
	finishThread(t)
	t.done = true
	if usePipes {
		rawWrite(schedW)
	} else {
		turn = schedTurn
	}
}

func runBody(body func()) { body() }
