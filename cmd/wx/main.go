//go:build verif

// wx is the instrumented worker of the C05 work-growth explorer; built only by `vf check C05` with the generated
// tick overlay.
package main

import (
	"flag"
	"fmt"
	"os"
	"strconv"

	"github.com/coregx/coregex"
	"github.com/coregx/coregex/vfhook/vwork"

	"verif/internal/harness"
	"verif/internal/kf"
	"verif/internal/wx"
)

const perByteCap = 40000

// measure runs f once with the work limit and returns the tick count (-1 when the cap was exceeded).
func measure(limit int64, f func()) (ticks int64) {
	defer func() {
		if r := recover(); r != nil {
			if _, ok := r.(vwork.ErrLimit); ok {
				ticks = -1
				return
			}
			vwork.Reset(0)
			panic(r)
		}
	}()
	vwork.Reset(limit)
	f()
	t := vwork.Count
	vwork.Reset(0)
	return t
}

func runUnit(w *harness.W, pattern string, fams []wx.Family, n int) {
	vwork.Reset(0)
	re, err := coregex.Compile(pattern)
	if err != nil {
		return
	}
	w.C["programs"]++
	apis := []struct {
		name string
		f    func(re *coregex.Regex, h []byte)
	}{
		{"Match", func(re *coregex.Regex, h []byte) { re.Match(h) }},
		{"FindIndex", func(re *coregex.Regex, h []byte) { re.FindIndex(h) }},
		{"FindSubmatchIndex", func(re *coregex.Regex, h []byte) { re.FindSubmatchIndex(h) }},
	}
	evals, nt := int64(0), int64(0)
	for _, fam := range fams {
		hs := [][]byte{fam.Make(n), fam.Make(2 * n), fam.Make(4 * n)}
		for _, api := range apis {
			var wk [3]int64
			capped := false
			for i, h := range hs {
				// fresh value per measurement (history must not leak into the count); one warm-up call on a short input
				re, _ = coregex.Compile(pattern)
				vwork.Reset(0)
				api.f(re, hs[0][:min(16, len(hs[0]))])
				wk[i] = measure(int64(perByteCap)*int64(len(h)+1), func() { api.f(re, h) })
				evals++
				if wk[i] < 0 {
					capped = true
					break
				}
			}
			w.C["states"] += 3
			if capped {
				w.Fail(&harness.Case{Op: api.name, Mode: "work", Pattern: pattern, Hay: strconv.Quote(fam.String()), Want: fmt.Sprintf("at most %d ticks per input byte", perByteCap), Got: "work cap exceeded (super-linear)", Cluster: "cap/" + api.name})
				continue
			}
			if wk[2] >= 64*int64(n) {
				nt++
				r := float64(wk[2]) / float64(max(wk[1], 1))
				if r > 2.6 {
					deg := "quadratic or worse"
					if r > 6 {
						deg = "cubic or worse"
					}
					w.Fail(&harness.Case{Op: api.name, Mode: "work", Pattern: pattern, Hay: strconv.Quote(fam.String()), Want: "W(4L) <= 2.6*W(2L)", Got: deg, Cluster: "growth/" + api.name,
						Extra: map[string]string{"W(L)": fmt.Sprint(wk[0]), "W(2L)": fmt.Sprint(wk[1]), "W(4L)": fmt.Sprint(wk[2]), "ratio": fmt.Sprintf("%.2f", r)}})
				}
			}
		}
	}
	w.C["evaluations"] += evals
	w.C["transitions"] += evals
	w.C["traces_validated_against_impl"] += evals
	w.C["distinct_nontrivial"] += nt
	w.Sample(map[string]any{"pattern": pattern, "families": len(fams), "measurements": evals, "above_noise": nt})
}

func runCompile(w *harness.W, f wx.CompileFamily) {
	var prev = map[int]int64{}
	evals := int64(0)
	for k := 1; k <= f.Max; k++ {
		p := f.Gen(k)
		// work limit: generous for any polynomial compiler (64x the previous size's work plus a constant), so that a
		// compilation that blows up (exponentially many literal variants, say) is stopped by a deterministic count —
		// a verdict, not a time-out — before it exhausts memory
		limit := int64(50_000_000)
		if k > 1 && prev[k-1] > 0 {
			limit = 64*prev[k-1] + 5_000_000
		}
		t := measure(limit, func() { coregex.Compile(p) })
		evals++
		if t < 0 {
			w.Fail(&harness.Case{Op: "Compile", Mode: "work", Pattern: "compile family " + f.Name, Hay: strconv.Quote(fmt.Sprintf("size %d", k)), Want: "W(k) <= 64*W(k-1) + c", Got: "compile work limit exceeded", Cluster: "compile",
				Extra: map[string]string{"W(k-1)": fmt.Sprint(prev[k-1]), "limit": fmt.Sprint(limit)}})
			break
		}
		prev[k] = t
		if k%2 == 0 && k >= 8 {
			half := prev[k/2]
			if t > 8*half+20000 {
				w.Fail(&harness.Case{Op: "Compile", Mode: "work", Pattern: "compile family " + f.Name, Hay: strconv.Quote(fmt.Sprintf("size %d", k)), Want: "W(2k) <= 8*W(k) + c", Got: "super-cubic growth", Cluster: "compile",
					Extra: map[string]string{"W(k)": fmt.Sprint(half), "W(2k)": fmt.Sprint(t)}})
				break
			}
		}
	}
	w.C["evaluations"] += evals
	w.C["transitions"] += evals
	w.C["states"] += evals
	w.C["traces_validated_against_impl"] += evals
	w.C["distinct_nontrivial"] += evals
	w.Sample(map[string]any{"compile_family": f.Name, "sizes": f.Max, "ticks_at_max": prev[f.Max]})
}

func main() {
	wx.RunUnit = runUnit
	wx.RunCompile = runCompile
	if len(os.Args) < 3 || os.Args[1] != "worker" {
		fmt.Fprintln(os.Stderr, "wx: worker binary of `vf check C05`")
		os.Exit(2)
	}
	id := os.Args[2]
	fs := flag.NewFlagSet("worker", flag.ExitOnError)
	tier := fs.String("tier", "quick", "")
	seed := fs.Int64("seed", 0, "")
	triage := fs.String("triage", "", "")
	pass := fs.String("pass", "", "")
	fs.Parse(os.Args[3:])
	store := &kf.Store{}
	if *triage == "" {
		var err error
		kfRoot := os.Getenv("VF_ROOT")
		if kfRoot == "" {
			kfRoot = "/verif"
		}
		store, err = kf.Load(kfRoot, id)
		if err != nil {
			fmt.Fprintln(os.Stderr, "wx:", err)
			os.Exit(2)
		}
	}
	harness.WorkerMain(id, *tier, *pass, *seed, wx.Plan(*tier), store, *triage)
}
