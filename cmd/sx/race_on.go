//go:build verif && race

package main

const raceEnabled = true
