//go:build verif

// sx is the instrumented worker of the C06 schedule explorer. It is only ever built by `vf check C06` with
// `-tags verif -overlay <generated overlay>`, so that github.com/coregx/coregex is compiled with the sync / atomic
// shims and the scheduler package vfhook/vsched exists.
package main

import (
	"flag"
	"fmt"
	"os"
	"sort"
	"strconv"
	"strings"

	"github.com/coregx/coregex"
	"github.com/coregx/coregex/vfhook/vatomic"
	"github.com/coregx/coregex/vfhook/vsched"

	"verif/internal/bx"
	"verif/internal/harness"
	"verif/internal/kf"
	"verif/internal/sx"
)

func doCall(re *coregex.Regex, c sx.Call) (out string) {
	defer func() {
		if r := recover(); r != nil {
			s := fmt.Sprint(r)
			if i := strings.IndexByte(s, '\n'); i >= 0 {
				s = s[:i]
			}
			out = "panic: " + s
		}
	}()
	hs := sx.Expand(c.Hay)
	h := []byte(hs)
	switch c.API {
	case "Match":
		return strconv.FormatBool(re.Match(h))
	case "FindIndex":
		return bx.Show(re.FindIndex(h))
	case "FindSubmatchIndex":
		return bx.Show(re.FindSubmatchIndex(h))
	case "FindAllIndex":
		all := re.FindAllIndex(h, -1)
		if len(all) > 64 {
			// large inputs: a digest instead of tens of thousands of spans
			d := 0
			for _, m := range all {
				d = d*31 + m[0]*7 + m[1]
			}
			return fmt.Sprintf("%d matches, digest %d, first %v last %v", len(all), d, all[0], all[len(all)-1])
		}
		return bx.Show(all)
	case "Count":
		return strconv.Itoa(re.Count(h, -1))
	case "ReplaceAllString":
		return strconv.Quote(re.ReplaceAllString(hs, "<$0>"))
	case "Split":
		return bx.Show(re.Split(hs, -1))
	case "AllIndex":
		var ms [][2]int
		for m := range re.AllIndex(h) {
			ms = append(ms, m)
		}
		return fmt.Sprint(ms)
	}
	panic("sx: unknown API " + c.API)
}

func compile(u sx.Unit) *coregex.Regex {
	re, err := coregex.Compile(u.Pattern)
	if err != nil {
		panic("sx: program does not compile: " + u.Pattern + ": " + err.Error())
	}
	if u.Longest {
		re.Longest()
	}
	return re
}

type result struct {
	ex      *vsched.Exec
	results [][]string
}

// runOne executes one schedule on a freshly compiled value.
func runOne(u sx.Unit, prefix []int) result {
	re := compile(u)
	res := make([][]string, len(u.Threads))
	bodies := make([]func(), len(u.Threads))
	for i, calls := range u.Threads {
		i, calls := i, calls
		res[i] = make([]string, len(calls))
		bodies[i] = func() {
			for k, c := range calls {
				res[i][k] = doCall(re, c)
			}
		}
	}
	ex := vsched.Run(prefix, bodies)
	return result{ex, res}
}

func choicesOf(ex *vsched.Exec) []int {
	out := make([]int, len(ex.Points))
	for i, p := range ex.Points {
		out[i] = p.Chosen
	}
	return out
}

// cost of the choices before point i: preemptions + environment deviations.
func costBefore(ex *vsched.Exec, i int) int {
	c := 0
	for _, p := range ex.Points[:i] {
		c += pointCost(p, p.Chosen)
	}
	return c
}

func pointCost(p vsched.PointRec, choice int) int {
	if choice == 0 {
		return 0
	}
	if p.EnvAlternatives > 0 {
		return 1
	}
	if len(p.Enabled) > 0 && p.Running >= 0 && p.Enabled[0] == p.Running {
		return 1 // switching away from a runnable thread is a preemption
	}
	return 0
}

// ---- harness validation: what the race detector can and cannot see under the scheduler ------------------------
//
// Once per race-build worker process, before its first unit: (1) two logical threads that increment one plain variable
// strictly one after the other under the controlled scheduler MUST be reported (the hand-off itself creates no
// happens-before edge); (2) a write published through the atomic-pointer shim and read after loading that pointer
// must NOT be reported (the shim performs the real atomic operation). A failure of either is an error of the checking
// machinery (exit 2), never a violation.
var (
	scPlain   int
	scPayload int
	scSlot    vatomic.Pointer[int]
	scDone    bool
)

func scBump()          { scPlain++ }
func scPublish(v *int) { scPayload = 41; scSlot.Store(v) }
func scConsume() int {
	if scSlot.Load() != nil {
		return scPayload + 1
	}
	return 0
}

func raceSelfCheck(w *harness.W) {
	if !raceEnabled || scDone {
		return
	}
	scDone = true
	log := newRaceLog()
	if log.path == "" {
		return
	}
	vsched.Run(nil, []func(){scBump, scBump})
	if len(log.newReports()) == 0 {
		w.C["harness_errors"]++
		fmt.Fprintln(os.Stderr, "HARNESS: race-visibility self-check failed: unsynchronised increments under the scheduler were not reported")
		return
	}
	v := 1
	got := 0
	vsched.Run(nil, []func(){func() { scPublish(&v) }, func() { got = scConsume() }})
	if rep := log.newReports(); len(rep) > 0 || got != 42 {
		w.C["harness_errors"]++
		fmt.Fprintf(os.Stderr, "HARNESS: race-visibility self-check failed: publication through the atomic shim reported as a race (%v) or not observed (got %d)\n", rep, got)
		return
	}
	w.C["race_visibility_selfchecks_passed"]++
}

func runUnit(w *harness.W, u sx.Unit, bound, capExec int) {
	raceSelfCheck(w)
	// alone results: every call on its own fresh value, outside any exploration
	alone := make([][]string, len(u.Threads))
	for i, calls := range u.Threads {
		for _, c := range calls {
			alone[i] = append(alone[i], doCall(compile(u), c))
		}
	}
	raceLog := newRaceLog()
	execs, points, trans, nontrivial := int64(0), int64(0), int64(0), int64(0)
	outcomes := map[string]bool{}
	capped := false
	reported := map[string]bool{}
	fail := func(op string, choices []int, want, got string) {
		key := op + "|" + got
		if reported[key] {
			return
		}
		reported[key] = true
		w.Fail(&harness.Case{Op: op, Mode: w.Pass, Pattern: u.String(), Hay: strconv.Quote(fmt.Sprint(choices)), Want: want, Got: got, Cluster: op})
	}
	// iterative context bounding without re-execution: work lists per deviation count. Level c holds the schedule
	// prefixes whose execution has exactly c deviations (a prefix's execution takes choice 0 — no deviation — at every
	// later point, so its cost is the cost of the prefix); executing one yields its alternatives of cost c (forced
	// switches: the running thread ended) and c+1. Level c is emptied completely before level c+1 is started, so an
	// execution cap truncates only the deepest level reached, and the first counterexample has the fewest deviations.
	// completedBound = the largest c such that every schedule with at most c deviations was executed.
	big := strings.Contains(u.String(), "@repeat:")
	levels := make([][][]int, bound+2)
	levels[0] = [][]int{nil}
	completedBound := -1
	stop := false
	runPrefix := func(prefix []int, level int) {
		r := runOne(u, prefix)
		execs++
		x := r.ex
		points += int64(len(x.Points))
		if x.Diverged {
			// replaying a recorded prefix must reach the same choice points: a harness error, never a violation
			w.C["harness_errors"]++
			fmt.Fprintf(os.Stderr, "HARNESS: schedule prefix %v diverged on %s\n", prefix, u.String())
			return
		}
		ch := choicesOf(x)
		if c := costBefore(x, len(x.Points)); c > 0 {
			nontrivial++
			if c != level {
				w.C["harness_errors"]++
				fmt.Fprintf(os.Stderr, "HARNESS: schedule %v has %d deviations, expected %d on %s\n", ch, c, level, u.String())
				return
			}
		}
		outcomes[fmt.Sprint(r.results)] = true
		if x.Problem != "" {
			fail("ownership", ch, "every pooled / slot object has one holder at a time", x.Problem)
		}
		for i := range r.results {
			for k := range r.results[i] {
				if r.results[i][k] != alone[i][k] {
					fail("result-differs-from-alone", ch, fmt.Sprintf("T%d call %d %s(%q) = %s", i, k, u.Threads[i][k].API, u.Threads[i][k].Hay, alone[i][k]), r.results[i][k])
				}
			}
		}
		if rep := raceLog.newReports(); len(rep) > 0 {
			for _, rp := range rep {
				fail("data-race", ch, "no unsynchronised conflicting accesses", rp)
			}
		}
		if len(reported) > 0 {
			stop = true
			return
		}
		before := costBefore(x, len(prefix))
		for i := len(prefix); i < len(x.Points); i++ {
			p := x.Points[i]
			nalt := len(p.Enabled)
			if p.EnvAlternatives > 0 {
				nalt = p.EnvAlternatives
			}
			for alt := 1; alt < nalt; alt++ {
				c := before + pointCost(p, alt)
				if c > bound {
					continue
				}
				trans++
				levels[c] = append(levels[c], append(append(make([]int, 0, i+1), ch[:i]...), alt))
			}
			before += pointCost(p, p.Chosen)
		}
	}
	for level := 0; level <= bound && !capped && !stop; level++ {
		for len(levels[level]) > 0 && !stop {
			if execs >= int64(capExec) && (level >= 2 || big) {
				// the cap never truncates levels 0 and 1 of an ordinary harness (a few hundred schedules at most)
				capped = true
				break
			}
			n := len(levels[level]) - 1
			prefix := levels[level][n]
			levels[level] = levels[level][:n]
			runPrefix(prefix, level)
		}
		if !capped && !stop {
			completedBound = level
		}
	}
	w.C[fmt.Sprintf("harnesses_complete_to_bound_%d", completedBound)]++
	if completedBound < bound && !stop {
		w.C["schedules_left_unexplored_at_cap"] += int64(len(levels[completedBound+1]))
	}
	w.C["evaluations"] += execs
	w.C["states"] += points
	w.C["transitions"] += trans + execs
	w.C["traces_validated_against_impl"] += execs
	w.C["distinct_nontrivial"] += nontrivial
	w.C["distinct_outcomes"] += int64(len(outcomes))
	w.C["programs"]++
	if capped {
		w.C["harnesses_execution_cap_hit"]++
	}
	w.Sample(map[string]any{"harness": u.String(), "executions": execs, "scheduling_points": points, "distinct_outcomes": len(outcomes), "cap_hit": capped, "completed_deviation_bound": completedBound, "pass": w.Pass, "race_detector": raceEnabled})
}

func main() {
	sx.RunUnit = runUnit
	if len(os.Args) < 3 || os.Args[1] != "worker" {
		fmt.Fprintln(os.Stderr, "sx: worker binary of `vf check C06`")
		os.Exit(2)
	}
	id := os.Args[2]
	fs := flag.NewFlagSet("worker", flag.ExitOnError)
	tier := fs.String("tier", "quick", "")
	seed := fs.Int64("seed", 0, "")
	triage := fs.String("triage", "", "")
	pass := fs.String("pass", "", "")
	fs.Parse(os.Args[3:])
	store := &kf.Store{}
	if *triage == "" {
		var err error
		kfRoot := os.Getenv("VF_ROOT")
		if kfRoot == "" {
			kfRoot = "/verif"
		}
		store, err = kf.Load(kfRoot, id)
		if err != nil {
			fmt.Fprintln(os.Stderr, "sx:", err)
			os.Exit(2)
		}
	}
	harness.WorkerMain(id, *tier, *pass, *seed, sx.Plan(*tier), store, *triage)
}

// ---- race log -------------------------------------------------------------------------------------------------

type raceLogT struct {
	path string
	off  int64
}

func newRaceLog() *raceLogT {
	if !raceEnabled {
		return &raceLogT{}
	}
	// GORACE=log_path=<p> makes the runtime write reports to <p>.<pid>
	p := os.Getenv("VF_RACE_LOG")
	if p == "" {
		return &raceLogT{}
	}
	rl := &raceLogT{path: p + "." + strconv.Itoa(os.Getpid())}
	if st, err := os.Stat(rl.path); err == nil {
		rl.off = st.Size()
	}
	return rl
}

// newReports returns a normalised summary of each race report written since the last call.
func (r *raceLogT) newReports() []string {
	if r.path == "" {
		return nil
	}
	st, err := os.Stat(r.path)
	if err != nil || st.Size() <= r.off {
		return nil
	}
	f, err := os.Open(r.path)
	if err != nil {
		return nil
	}
	defer f.Close()
	buf := make([]byte, st.Size()-r.off)
	f.ReadAt(buf, r.off)
	r.off = st.Size()
	var out []string
	for _, rep := range strings.Split(string(buf), "==================") {
		if !strings.Contains(rep, "DATA RACE") {
			continue
		}
		out = append(out, summariseRace(rep))
	}
	sort.Strings(out)
	return out
}

// summariseRace keeps, for each of the two accesses, the first frames inside the library (function names only):
// the identity of a race finding is the unordered pair of access sites.
func summariseRace(rep string) string {
	var sites []string
	var cur []string
	flush := func() {
		if len(cur) > 0 {
			sites = append(sites, strings.Join(cur, " < "))
		}
		cur = nil
	}
	inAccess := false
	for _, l := range strings.Split(rep, "\n") {
		t := strings.TrimSpace(l)
		switch {
		case strings.HasPrefix(t, "Read at") || strings.HasPrefix(t, "Write at") || strings.HasPrefix(t, "Previous read at") || strings.HasPrefix(t, "Previous write at"):
			flush()
			inAccess = true
			kind := "read"
			if strings.Contains(strings.ToLower(t), "write") {
				kind = "write"
			}
			cur = append(cur, kind)
		case strings.HasPrefix(t, "Goroutine ") && strings.Contains(t, "created at"):
			flush()
			inAccess = false
		case inAccess && strings.HasPrefix(t, "github.com/coregx/coregex"):
			fn := t
			if i := strings.Index(fn, "("); i > 0 && !strings.HasPrefix(fn[i:], "(*") {
				fn = fn[:i]
			}
			fn = strings.TrimPrefix(fn, "github.com/coregx/coregex/")
			if i := strings.LastIndex(fn, "("); i > 0 && strings.HasSuffix(fn, ")") && !strings.Contains(fn[i:], "*") {
				fn = fn[:i]
			}
			// keep frames up to and including the first one in package meta / the top-level package (the call site
			// that chose the shared object), at most 8
			if len(cur) < 9 && !strings.Contains(strings.Join(cur, " "), " meta.") {
				cur = append(cur, fn)
			}
		}
	}
	flush()
	sort.Strings(sites)
	return strings.Join(sites, "  ||  ")
}
