// vf is the coordinator / worker / replay binary of the verification framework (DESIGN §6).
package main

import (
	"encoding/json"
	"flag"
	"fmt"
	"os"
	"path/filepath"
	"strconv"

	"verif/internal/harness"
	"verif/internal/kf"
)

// root is /verif unless VF_ROOT says otherwise (background snapshot runs, mutation runs against a scratch worktree).
var root = envOr("VF_ROOT", "/verif")

// repoDir is the tree that is instrumented by the overlay generators (VF_REPO for scratch worktrees).
func repoDir() string { return envOr("VF_REPO", "/repo") }

// modArgs: extra build arguments for the instrumented workers (-modfile of a scratch worktree run).
func modArgs() []string {
	if m := os.Getenv("VF_MODFILE"); m != "" {
		return []string{"-modfile=" + m}
	}
	return nil
}

// planFn builds the plan of a property for a tier.
type planFn func(tier string) *harness.Plan

var registry = map[string]planFn{}

func usage() {
	fmt.Fprintln(os.Stderr, "usage: vf check <ID> [--tier quick|thorough] | vf worker <ID> ... | vf replay <file> | vf triage <ID> [--tier T]")
	os.Exit(2)
}

func main() {
	if len(os.Args) < 3 {
		usage()
	}
	cmd, id := os.Args[1], os.Args[2]
	if cmd == "kfgen" {
		kfgen(id, os.Args[3:])
		return
	}
	fs := flag.NewFlagSet(cmd, flag.ExitOnError)
	tier := fs.String("tier", envOr("VERIF_TIER", "quick"), "quick|thorough")
	seed := fs.Int64("seed", envInt("VERIF_SEED", 0), "seed (permutes shard order only)")
	workers := fs.Int("workers", 0, "worker processes (default: all cores)")
	triage := fs.String("triage", "", "triage output (worker: file; triage: dir)")
	pass := fs.String("pass", "", "worker: name of the process-level pass")
	fs.Parse(os.Args[3:])
	if *tier != "quick" && *tier != "thorough" {
		*tier = "quick"
	}
	switch cmd {
	case "check", "triage":
		mk, ok := registry[id]
		if !ok {
			fmt.Fprintln(os.Stderr, "vf: unknown property", id)
			os.Exit(2)
		}
		store, err := kf.Load(root, id)
		if err != nil {
			fmt.Fprintln(os.Stderr, "vf:", err)
			os.Exit(2)
		}
		self, _ := os.Executable()
		opt := harness.Options{Prop: id, Tier: *tier, Seed: *seed, Workers: *workers, Root: root, Self: self}
		if cmd == "triage" {
			dir := *triage
			if dir == "" {
				dir = filepath.Join(root, ".work", "triage", id)
			}
			os.RemoveAll(dir)
			os.MkdirAll(dir, 0o755)
			opt.Triage = dir
			opt.Quiet = true
			store = &kf.Store{} // triage sees every failing case
		}
		plan := mk(*tier)
		if cmd == "triage" {
			plan.Budget = 0 // the maintenance sweep that feeds the known-findings store is never cut short
		}
		code := harness.Coordinate(opt, plan, store)
		if cmd == "triage" {
			fmt.Println("triage files in", opt.Triage)
			os.Exit(0)
		}
		os.Exit(code)
	case "worker":
		mk, ok := registry[id]
		if !ok {
			os.Exit(2)
		}
		store := &kf.Store{}
		if *triage == "" {
			var err error
			store, err = kf.Load(root, id)
			if err != nil {
				fmt.Fprintln(os.Stderr, "vf:", err)
				os.Exit(2)
			}
		}
		harness.WorkerMain(id, *tier, *pass, *seed, mk(*tier), store, *triage)
	case "replay":
		b, err := os.ReadFile(id)
		if err != nil {
			fmt.Fprintln(os.Stderr, "vf:", err)
			os.Exit(2)
		}
		var c harness.Case
		if err := json.Unmarshal(b, &c); err != nil {
			fmt.Fprintln(os.Stderr, "vf:", err)
			os.Exit(2)
		}
		mk, ok := registry[c.Property]
		if !ok {
			fmt.Fprintln(os.Stderr, "vf: unknown property", c.Property)
			os.Exit(2)
		}
		plan := mk(*tier)
		if plan.Replay == nil {
			fmt.Fprintln(os.Stderr, "vf: property has no replay function")
			os.Exit(2)
		}
		w := &harness.W{Prop: c.Property, Tier: *tier, Store: &kf.Store{}, C: map[string]int64{}, ReplayMode: true}
		plan.Replay(w, &c)
		same := false
		for _, r := range w.Replayed {
			fmt.Printf("FAILS op=%s mode=%s pattern=%q haystack=%s args=%s want=%s got=%s\n", r.Op, r.Mode, r.Pattern, r.Hay, r.Args, r.Want, r.Got)
			if r.Op == c.Op && r.Args == c.Args && r.Got == c.Got {
				same = true
			}
		}
		if same {
			fmt.Println("replay: reproduced (same wrong result)")
			os.Exit(1)
		}
		if len(w.Replayed) > 0 {
			fmt.Println("replay: fails, but not with the recorded result")
			os.Exit(1)
		}
		fmt.Println("replay: passes")
		os.Exit(0)
	default:
		usage()
	}
}

func envOr(k, d string) string {
	if v := os.Getenv(k); v != "" {
		return v
	}
	return d
}

func envInt(k string, d int64) int64 {
	if v := os.Getenv(k); v != "" {
		if n, err := strconv.ParseInt(v, 10, 64); err == nil {
			return n
		}
	}
	return d
}
