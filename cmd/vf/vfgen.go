package main

import (
	"encoding/json"
	"fmt"
	"go/ast"
	"go/format"
	"go/parser"
	"go/token"
	"os"
	"os/exec"
	"path/filepath"
	"strconv"
	"strings"

	"verif/internal/harness"
	"verif/internal/sx"
)

// vfgen regenerates, from /repo's CURRENT working tree, the overlay used by the C06 schedule explorer: every
// non-test file of the library that imports "sync" or "sync/atomic" is copied with those imports redirected to the
// shim packages, and the shim packages themselves (sources under /verif/overlay) are added to the repository
// module under vfhook/. Nothing under /repo is touched. Returns the overlay JSON path and the rewritten file count.
func vfgen(work string) (string, int, error) {
	repo := repoDir()
	dir := filepath.Join(work, "overlay")
	os.RemoveAll(dir)
	if err := os.MkdirAll(dir, 0o755); err != nil {
		return "", 0, err
	}
	replace := map[string]string{}
	n := 0
	err := filepath.Walk(repo, func(path string, info os.FileInfo, err error) error {
		if err != nil {
			return err
		}
		if info.IsDir() {
			if b := info.Name(); b == ".git" || b == "benchmark" || b == "docs" || b == "scripts" || b == "vfhook" {
				return filepath.SkipDir
			}
			return nil
		}
		if !strings.HasSuffix(path, ".go") || strings.HasSuffix(path, "_test.go") {
			return nil
		}
		src, err := os.ReadFile(path)
		if err != nil {
			return err
		}
		if !strings.Contains(string(src), `"sync"`) && !strings.Contains(string(src), `"sync/atomic"`) {
			return nil
		}
		fset := token.NewFileSet()
		f, err := parser.ParseFile(fset, path, src, parser.ParseComments)
		if err != nil {
			return fmt.Errorf("vfgen: %s: %w", path, err)
		}
		changed := false
		for _, im := range f.Imports {
			p, _ := strconv.Unquote(im.Path.Value)
			switch p {
			case "sync":
				if im.Name == nil {
					im.Name = ast.NewIdent("sync")
				}
				im.Path.Value = strconv.Quote("github.com/coregx/coregex/vfhook/vsync")
				changed = true
			case "sync/atomic":
				if im.Name == nil {
					im.Name = ast.NewIdent("atomic")
				}
				im.Path.Value = strconv.Quote("github.com/coregx/coregex/vfhook/vatomic")
				changed = true
			}
		}
		if !changed {
			return nil
		}
		rel, _ := filepath.Rel(repo, path)
		out := filepath.Join(dir, rel)
		os.MkdirAll(filepath.Dir(out), 0o755)
		var sb strings.Builder
		if err := format.Node(&sb, fset, f); err != nil {
			return err
		}
		if err := os.WriteFile(out, []byte(sb.String()), 0o644); err != nil {
			return err
		}
		replace[path] = out
		n++
		return nil
	})
	if err != nil {
		return "", 0, err
	}
	for _, pkg := range []string{"vsched", "vsync", "vatomic"} {
		files, _ := filepath.Glob(filepath.Join(root, "overlay", pkg, "*.go"))
		for _, f := range files {
			replace[filepath.Join(repo, "vfhook", pkg, filepath.Base(f))] = f
		}
	}
	b, _ := json.MarshalIndent(map[string]any{"Replace": replace}, "", " ")
	ov := filepath.Join(work, "overlay.json")
	if err := os.WriteFile(ov, b, 0o644); err != nil {
		return "", 0, err
	}
	return ov, n, nil
}

// c06Plan: the plan of sx plus the coordinator-side preparation (generate the overlay, build the instrumented
// worker twice: plain and -race).
func c06Plan(tier string) *harness.Plan {
	plan := sx.Plan(tier)
	work := filepath.Join(root, ".work", os.Getenv("VF_WORK_SUB"))
	plan.Prepare = func(opt *harness.Options) error {
		os.RemoveAll(filepath.Join(work, "racelog"))
		os.MkdirAll(filepath.Join(work, "racelog"), 0o755)
		ov, n, err := vfgen(work)
		if err != nil {
			return err
		}
		gobin := os.Getenv("VF_GO")
		if gobin == "" {
			gobin = "go"
		}
		for _, v := range []struct {
			out  string
			args []string
		}{{"sx", nil}, {"sx-race", []string{"-race"}}} {
			args := append([]string{"build", "-tags", "verif", "-overlay", ov}, modArgs()...)
			args = append(args, v.args...)
			args = append(args, "-o", filepath.Join(work, v.out), "./cmd/sx")
			cmd := exec.Command(gobin, args...)
			cmd.Dir = root
			if outp, err := cmd.CombinedOutput(); err != nil {
				return fmt.Errorf("building %s: %v\n%s", v.out, err, outp)
			}
		}
		opt.Self = filepath.Join(work, "sx")
		fmt.Printf("C06: overlay regenerated from the current tree (%d files rewritten), instrumented workers built\n", n)
		return nil
	}
	raceLog := filepath.Join(work, "racelog", "r")
	os.MkdirAll(filepath.Dir(raceLog), 0o755)
	plan.Passes = []harness.Pass{
		{Name: "interleavings"},
		{Name: "race-detector", Self: filepath.Join(work, "sx-race"), Env: []string{"GORACE=halt_on_error=0 exitcode=0 log_path=" + raceLog, "VF_RACE_LOG=" + raceLog}},
	}
	return plan
}

func init() { registry["C06"] = c06Plan }
