package main

import (
	"time"
	"verif/internal/ax"
	"verif/internal/ex"
	"verif/internal/fx"
	"verif/internal/hx"

	"verif/internal/bx"
	"verif/internal/harness"
	"verif/internal/lx"
	"verif/internal/mx"
	"verif/internal/px"
	"verif/internal/space"
)

const levelMC = "model_checking"

var sweepAssume = []string{
	"L1 bounds: only patterns/haystacks within the stated AST-size, symbol-count and embedding bounds are explored",
	"L4 alphabet: haystack bytes are class representatives (a b A 0 space newline é É, raw 0xC3 0xA9 0xFF 0xED 0xA0 0x80) plus per-seed literal tokens",
	"oracle: package regexp of the Go toolchain the repository builds with",
	"known findings are matched by exact case hash (op, mode, pattern, haystack, args, observed result); see /verif/known_findings.json",
}

func sweepTier(tier string, quick, thorough bx.Tier) bx.Tier {
	if tier == "thorough" {
		return thorough
	}
	return quick
}

var (
	// nSeeds: the strategy seeds themselves come first in S(k) and are the only seed patterns that get embeddings
	nSeeds     = len(space.Seeds)
	quickSweep = bx.Tier{PN: 4, SK: 1, LASCII: 4, LBig: 3, LUTF8: 3, LUTF8Big: 2, LRaw: 3, LRawBig: 2, EmbedW: 1, EmbedPN: 3, TokL: 3, TokN: 5, SeedEmbW: 2, SeedEmbTokN: 8, SeedJ: []int{0, 33}, SeedEmbFirst: nSeeds, SeedTokL: 6, SeedTokN: 5, Budget: 150 * time.Second}
	// thorough = the quick space plus every 5-node pattern (on ASCII haystacks of <= 3 symbols) and the two-edit
	// seed neighbourhoods (on their token words): a superset, so one known-finding set serves both tiers
	thoroughSweep = thoroughOf(quickSweep, 3)
)

func thoroughOf(q bx.Tier, lhuge int) bx.Tier {
	t := q
	t.HugePN, t.LHuge = q.PN, lhuge
	t.PN, t.SK, t.LateSKDelta = q.PN+1, q.SK+1, 1
	t.Budget = 25 * time.Minute
	return t
}

func sweepProp(id, rule string, needEng, needRef bool, q, t bx.Tier, body func(tier string) bx.PerHay) {
	registry[id] = func(tier string) *harness.Plan {
		sp := bx.NewSpace(sweepTier(tier, q, t))
		b := body(tier)
		plan := bx.SweepPlan(sp, levelMC, rule, needEng, needRef, b, nil)
		plan.Assume = sweepAssume
		plan.Replay = func(w *harness.W, c *harness.Case) {
			cx, ok := bx.NewCtx(w, c.Pattern, orFirst(c.Mode), needEng, needRef)
			if !ok {
				return
			}
			h := c.HayBytes()
			b(cx, h, 0)
			cx.Flush(h)
		}
		return plan
	}
}

func orFirst(m string) string {
	if m == "" {
		return "first"
	}
	return m
}

const sweepRuleTail = " Patterns: every AST with at most N nodes over 19 atoms, 9 quantifiers, capture, concatenation and alternation (deduplicated by printed form), plus every pattern within k AST edits of the strategy seeds. Haystacks: every sequence of at most L symbols over the ASCII / UTF-8 / raw alphabets, embeddings pad^i·w·pad^j across the vector-stride and threshold lengths, and per-seed literal-token sequences. states = (program, haystack) pairs executed on the real implementation; transitions = API calls applied to them and compared; a case is non-trivial when the oracle reports a match; cases are distinct by construction (deduplicated patterns × deduplicated haystacks)."

func init() {
	registry["C18"] = mx.SimdPlan
	registry["C07"] = mx.TotalPlan
	registry["C08"] = bx.C08Plan
	registry["C09"] = bx.C09Plan
	registry["C16"] = px.Plan
	registry["C14"] = ex.Plan
	registry["C13"] = hx.Plan("C13", hx.ModeResults)
	registry["C20"] = hx.Plan("C20", hx.ModeMemory)
	registry["C19"] = fx.Plan
	registry["C15"] = ax.Plan
	registry["C17"] = lx.Plan
	registry["C12"] = bx.C12Plan
	registry["C10"] = c10Plan
	sweepProp("C01", "Match/MatchString/MatchReader/package-level Match*/Engine.IsMatch compared with package regexp."+sweepRuleTail, true, false,
		quickSweep, thoroughSweep, func(string) bx.PerHay {
			return func(cx *bx.Ctx, h []byte, hi int) bool {
				k := bx.HayHash(h)
				return cx.OpsC01(h, k%64 == 3, len(h) <= 8 || k%8 == 3)
			}
		})
	sweepProp("C02", "Find/FindString/FindIndex/FindStringIndex/FindReaderIndex/Engine.FindIndices/Engine.Find compared with package regexp."+sweepRuleTail, true, false,
		quickSweep, thoroughSweep, func(string) bx.PerHay {
			return func(cx *bx.Ctx, h []byte, hi int) bool { return cx.OpsC02(h) }
		})
	sweepProp("C03", "The five Find*Submatch* forms and Engine.FindSubmatch(At) compared element-wise with package regexp."+sweepRuleTail, true, false,
		quickSweep, thoroughSweep, func(string) bx.PerHay {
			return func(cx *bx.Ctx, h []byte, hi int) bool { return cx.OpsC03(h) }
		})
	// the enumeration / cross-view checks run ~10x more evaluations per (pattern, haystack): smaller haystack sets
	q4 := bx.Tier{PN: 4, SK: 1, LASCII: 3, LBig: 2, LUTF8: 2, LUTF8Big: 2, LRaw: 3, LRawBig: 1, EmbedW: 1, EmbedPN: 2, TokL: 2, TokN: 5, SeedEmbW: 2, SeedEmbTokN: 8, SeedJ: []int{0, 33}, SeedEmbFirst: nSeeds, SeedTokL: 4, SeedTokN: 6, Budget: 150 * time.Second}
	t4 := thoroughOf(q4, 2) // ~40 evaluations per (pattern, haystack): the 5-node patterns get ASCII haystacks of <= 2 symbols
	sweepProp("C04", "All FindAll* forms, Count, iterators (with early break), AppendAll*Index (three dst shapes) and the Engine enumeration API compared with regexp.FindAllSubmatchIndex for n in {-1,0,1,2,3,|m|,|m|+1}."+sweepRuleTail, true, false,
		q4, t4, func(tier string) bx.PerHay {
			return func(cx *bx.Ctx, h []byte, hi int) bool { return cx.OpsC04(h, tier == "thorough") }
		})
	// C11 needs no oracle, so its strategy seeds get the same token words (<= 6 tokens) as C01-C03: a boolean path and a
	// span path of one strategy can disagree only on inputs long enough for one of them to restart inside a failed
	// attempt (seeded change S3-C11-A was caught by C01 but not by C11 with words of <= 4 tokens)
	q11 := q4
	q11.SeedTokL, q11.SeedTokN = 6, 5
	t11 := thoroughOf(q11, 2)
	sweepProp("C11", "Cross-view relations between the APIs of one compiled value (no external oracle), including Engine.FindIndicesAt = Engine.FindAt = Engine.FindSubmatchAt[0] at every offset."+sweepRuleTail, true, false,
		q11, t11, func(string) bx.PerHay {
			return func(cx *bx.Ctx, h []byte, hi int) bool { return cx.OpsC11(h) }
		})
}

// c10Plan: the C01-C04 operations in leftmost-longest mode (Longest() and CompilePOSIX) against package regexp in
// the same mode, preceded by the mode-isolation history exploration.
func c10Plan(tier string) *harness.Plan {
	q := bx.Tier{PN: 3, SK: 0, LASCII: 3, LUTF8: 3, LRaw: 2, EmbedW: 1, EmbedPN: 3, TokL: 3, TokN: 6, SeedEmbW: 1, SeedJ: []int{0, 33}, Modes: []string{"longest", "posix"}, Budget: 150 * time.Second}
	// thorough: plus every 4-node pattern on ASCII haystacks of <= 3 symbols and the one-edit seed neighbourhoods on
	// their token words (a superset of the quick space)
	t := q
	t.PN, t.HugePN, t.LHuge, t.SK, t.LateSKDelta, t.SeedEmbFirst, t.Budget = 4, 3, 3, 1, 1, nSeeds, 25*time.Minute
	t.LASCII, t.LRaw = 4, 3
	sp := bx.NewSpace(sweepTier(tier, q, t))
	body := func(cx *bx.Ctx, h []byte, hi int) bool {
		k := bx.HayHash(h)
		nt := cx.OpsC01(h, false, len(h) <= 8 || k%8 == 3)
		cx.OpsC02(h)
		cx.OpsC03(h)
		cx.OpsC04(h, false)
		return nt
	}
	plan := bx.SweepPlan(sp, levelMC, "The C01-C04 operations on values in leftmost-longest mode — obtained by Longest() and by CompilePOSIX (patterns std's POSIX parser accepts) — compared with package regexp in the same mode; plus mode isolation: every sequence of at most d operations from {Compile, Copy(i), Longest(i)} on mode-sensitive seeds, checking after each operation that every live value answers like its std twin."+sweepRuleTail, true, false, body, nil)
	depth := 4
	if tier == "thorough" {
		depth = 6
	}
	iso := bx.C10IsoSeeds()
	inner := plan.Run
	nIso := len(iso)
	plan.Units += nIso
	plan.Run = func(w *harness.W, u int) {
		if u < nIso {
			bx.C10Isolation(w, iso[u], depth)
			w.Sample(map[string]any{"kind": "mode-isolation history", "pattern": iso[u], "depth": depth, "ops": []string{"compile", "copy(i)", "longest(i)"}})
			return
		}
		inner(w, u-nIso)
	}
	desc := plan.Describe
	plan.Describe = func(u int) string {
		if u < nIso {
			return "isolation seed " + iso[u]
		}
		return desc(u - nIso)
	}
	plan.Bounds["isolation_depth"] = depth
	plan.Bounds["isolation_seeds"] = iso
	plan.Assume = sweepAssume
	plan.Replay = func(w *harness.W, c *harness.Case) {
		if c.Mode == "history" {
			bx.C10Isolation(w, c.Pattern, depth)
			return
		}
		cx, ok := bx.NewCtx(w, c.Pattern, orFirst(c.Mode), true, false)
		if !ok {
			return
		}
		h := c.HayBytes()
		body(cx, h, 0)
		cx.Flush(h)
	}
	return plan
}
