package main

import (
	"encoding/json"
	"fmt"
	"go/ast"
	"go/format"
	"go/parser"
	"go/token"
	"os"
	"os/exec"
	"path/filepath"
	"strings"

	"verif/internal/harness"
	"verif/internal/wx"
)

// vfgenWork regenerates, from /repo's CURRENT working tree, the overlay of the C05 work-counter build: every
// non-test Go file of the library gets a vwork.Tick() call at the entry of every function (declarations and
// literals) and at the head of every loop body. Nothing under /repo is touched.
func vfgenWork(work string) (string, int, error) {
	repo := repoDir()
	dir := filepath.Join(work, "overlay-work")
	os.RemoveAll(dir)
	if err := os.MkdirAll(dir, 0o755); err != nil {
		return "", 0, err
	}
	replace := map[string]string{}
	n := 0
	tick := func() ast.Stmt {
		return &ast.ExprStmt{X: &ast.CallExpr{Fun: &ast.SelectorExpr{X: ast.NewIdent("vwork"), Sel: ast.NewIdent("Tick")}}}
	}
	err := filepath.Walk(repo, func(path string, info os.FileInfo, err error) error {
		if err != nil {
			return err
		}
		if info.IsDir() {
			if b := info.Name(); b == ".git" || b == "benchmark" || b == "docs" || b == "scripts" || b == "vfhook" {
				return filepath.SkipDir
			}
			return nil
		}
		if !strings.HasSuffix(path, ".go") || strings.HasSuffix(path, "_test.go") {
			return nil
		}
		src, err := os.ReadFile(path)
		if err != nil {
			return err
		}
		fset := token.NewFileSet()
		f, err := parser.ParseFile(fset, path, src, parser.ParseComments)
		if err != nil {
			return fmt.Errorf("vfgen: %s: %w", path, err)
		}
		inserted := 0
		ast.Inspect(f, func(nd ast.Node) bool {
			switch x := nd.(type) {
			case *ast.FuncDecl:
				if x.Body != nil {
					x.Body.List = append([]ast.Stmt{tick()}, x.Body.List...)
					inserted++
				}
			case *ast.FuncLit:
				x.Body.List = append([]ast.Stmt{tick()}, x.Body.List...)
				inserted++
			case *ast.ForStmt:
				x.Body.List = append([]ast.Stmt{tick()}, x.Body.List...)
				inserted++
			case *ast.RangeStmt:
				x.Body.List = append([]ast.Stmt{tick()}, x.Body.List...)
				inserted++
			}
			return true
		})
		if inserted == 0 {
			return nil
		}
		// keep build constraints and the doc comments of declarations (they carry //go: directives such as
		// //go:noescape); comments inside bodies are dropped
		docs := map[*ast.CommentGroup]bool{}
		for _, d := range f.Decls {
			switch x := d.(type) {
			case *ast.FuncDecl:
				docs[x.Doc] = true
			case *ast.GenDecl:
				docs[x.Doc] = true
			}
		}
		var keep []*ast.CommentGroup
		for _, cg := range f.Comments {
			if cg.End() < f.Package || docs[cg] {
				keep = append(keep, cg)
			}
		}
		f.Comments = keep
		rel, _ := filepath.Rel(repo, path)
		out := filepath.Join(dir, rel)
		os.MkdirAll(filepath.Dir(out), 0o755)
		var sb strings.Builder
		if err := format.Node(&sb, fset, f); err != nil {
			return fmt.Errorf("vfgen: printing %s: %w", path, err)
		}
		// add the import textually, right after the package clause (a separate import declaration)
		txt := sb.String()
		pk := "package " + f.Name.Name
		i := strings.Index(txt, pk)
		if i < 0 {
			return fmt.Errorf("vfgen: no package clause in %s", path)
		}
		j := i + len(pk)
		txt = txt[:j] + "\n\nimport vwork \"github.com/coregx/coregex/vfhook/vwork\"\n" + txt[j:]
		if err := os.WriteFile(out, []byte(txt), 0o644); err != nil {
			return err
		}
		replace[path] = out
		n += inserted
		return nil
	})
	if err != nil {
		return "", 0, err
	}
	files, _ := filepath.Glob(filepath.Join(root, "overlay", "vwork", "*.go"))
	for _, f := range files {
		replace[filepath.Join(repo, "vfhook", "vwork", filepath.Base(f))] = f
	}
	b, _ := json.MarshalIndent(map[string]any{"Replace": replace}, "", " ")
	ov := filepath.Join(work, "overlay-work.json")
	if err := os.WriteFile(ov, b, 0o644); err != nil {
		return "", 0, err
	}
	return ov, n, nil
}

func c05Plan(tier string) *harness.Plan {
	plan := wx.Plan(tier)
	work := filepath.Join(root, ".work", os.Getenv("VF_WORK_SUB"))
	plan.Prepare = func(opt *harness.Options) error {
		ov, n, err := vfgenWork(work)
		if err != nil {
			return err
		}
		gobin := os.Getenv("VF_GO")
		if gobin == "" {
			gobin = "go"
		}
		bargs := append([]string{"build", "-tags", "verif", "-overlay", ov}, modArgs()...)
		bargs = append(bargs, "-o", filepath.Join(work, "wx"), "./cmd/wx")
		cmd := exec.Command(gobin, bargs...)
		cmd.Dir = root
		if outp, err := cmd.CombinedOutput(); err != nil {
			return fmt.Errorf("building wx: %v\n%s", err, outp)
		}
		opt.Self = filepath.Join(work, "wx")
		fmt.Printf("C05: work-counter overlay regenerated from the current tree (%d tick sites), instrumented worker built\n", n)
		return nil
	}
	return plan
}

func init() { registry["C05"] = c05Plan }
