package main

import (
	"bufio"
	"encoding/json"
	"fmt"
	"os"
	"path/filepath"
	"sort"
	"strconv"
	"strings"

	"verif/internal/kf"
)

// kfgen is the maintenance command behind `vf kfgen <ID> [dir...]` (never run by a registered check): it reads
// the triage files of a property, clusters the failing cases by (path taken, haystack kind), writes one case set
// per cluster under known/<ID>/ and regenerates that property's open entries of known_findings.json.
// Descriptions come from known/annotations.json when present (hand-written root causes), else are generated.

type triRec struct {
	key                             uint64
	cluster, op, mode, pat, hay, wg string
}

func hayKind(q string) string {
	s, err := strconv.Unquote(q)
	if err != nil {
		return "raw"
	}
	ascii := true
	for i := 0; i < len(s); i++ {
		if s[i] >= 0x80 {
			ascii = false
		}
	}
	if ascii {
		return "ascii"
	}
	if strings.ToValidUTF8(s, "\x00\x00") == s {
		return "utf8"
	}
	return "raw"
}

func kfgen(id string, dirs []string) {
	if len(dirs) == 0 {
		dirs = []string{filepath.Join(root, ".work", "triage", id)}
	}
	groups := map[string][]triRec{}
	for _, dir := range dirs {
		files, _ := filepath.Glob(filepath.Join(dir, "*.tsv"))
		for _, fn := range files {
			f, err := os.Open(fn)
			if err != nil {
				panic(err)
			}
			sc := bufio.NewScanner(f)
			sc.Buffer(make([]byte, 1<<20), 1<<26)
			for sc.Scan() {
				p := strings.Split(sc.Text(), "\t")
				if len(p) < 8 {
					continue
				}
				k, err := strconv.ParseUint(p[0], 16, 64)
				if err != nil {
					continue
				}
				pat, _ := strconv.Unquote(p[4])
				r := triRec{key: k, cluster: p[1], op: p[2], mode: p[3], pat: pat, hay: p[5], wg: p[7]}
				ck := r.cluster
				if !strings.Contains(ck, "#") {
					ck += "#" + hayKind(r.hay)
				}
				groups[ck] = append(groups[ck], r)
			}
			f.Close()
		}
	}
	ann := map[string]struct{ Where, What string }{}
	if b, err := os.ReadFile(filepath.Join(root, "known", "annotations.json")); err == nil {
		json.Unmarshal(b, &ann)
	}
	var kfFile kf.File
	if b, err := os.ReadFile(filepath.Join(root, "known_findings.json")); err == nil {
		json.Unmarshal(b, &kfFile)
	}
	var keep []kf.Finding
	for _, f := range kfFile.Findings {
		if f.Property != id || f.Status == "fixed" || f.Cases == "" {
			keep = append(keep, f)
		}
	}
	os.RemoveAll(filepath.Join(root, "known", id))
	os.MkdirAll(filepath.Join(root, "known", id), 0o755)
	var names []string
	for k := range groups {
		names = append(names, k)
	}
	sort.Strings(names)
	total := 0
	for _, name := range names {
		recs := groups[name]
		sort.Slice(recs, func(i, j int) bool {
			a, b := recs[i], recs[j]
			if len(a.pat)+len(a.hay) != len(b.pat)+len(b.hay) {
				return len(a.pat)+len(a.hay) < len(b.pat)+len(b.hay)
			}
			if a.pat != b.pat {
				return a.pat < b.pat
			}
			return a.hay < b.hay
		})
		keys := make([]uint64, len(recs))
		pats := map[string]bool{}
		for i, r := range recs {
			keys[i] = r.key
			pats[r.pat] = true
		}
		slug := strings.NewReplacer("/", "_", "#", "-", " ", "_", "(", "", ")", "", "*", "", "=", "", "<", "", ">", "", "[", "", "]", "", ":", "", ",", "").Replace(name)
		if len(slug) > 60 {
			slug = slug[:60]
		}
		fid := "KF-" + id + "-" + slug
		rel := filepath.Join("known", id, slug+".set")
		if err := kf.WriteSet(filepath.Join(root, rel), keys); err != nil {
			panic(err)
		}
		type wit struct {
			Op, Mode, Pattern, Haystack, WantGot string
		}
		var ws []wit
		seenPat := map[string]bool{}
		for _, r := range recs {
			if seenPat[r.pat] {
				continue
			}
			seenPat[r.pat] = true
			wg, _ := strconv.Unquote(r.wg)
			if len(wg) > 300 {
				wg = wg[:300] + "…"
			}
			ws = append(ws, wit{r.op, r.mode, r.pat, r.hay, wg})
			if len(ws) == 3 {
				break
			}
		}
		wb, _ := json.Marshal(ws)
		parts := strings.SplitN(name, "#", 2)
		where := "path selected: " + parts[0]
		what := fmt.Sprintf("%s: results differ from the oracle on %s haystacks (%d patterns; minimal witness %q on %s: want / got = %s)", parts[0], parts[1], len(pats), ws[0].Pattern, ws[0].Haystack, ws[0].WantGot)
		if a, ok := ann[fid]; ok {
			where, what = a.Where, a.What
		}
		keep = append(keep, kf.Finding{ID: fid, Property: id, Status: "open", Where: where, What: what, Witness: wb, Cases: rel, NCases: len(keys)})
		total += len(keys)
	}
	sort.SliceStable(keep, func(i, j int) bool {
		if keep[i].Property != keep[j].Property {
			return keep[i].Property < keep[j].Property
		}
		return keep[i].ID < keep[j].ID
	})
	kfFile.Findings = keep
	kfFile.Comment = "Known findings (DESIGN §2.5). A finding is a genuine defect of the pinned tree, identified by the exact set of failing cases listed in its `cases` file (64-bit hashes of property, mode, pattern, haystack and the complete list of wrong results observed). Checks only read this file. Entries with status=fixed suppress nothing."
	b, _ := json.MarshalIndent(kfFile, "", " ")
	if err := os.WriteFile(filepath.Join(root, "known_findings.json"), b, 0o644); err != nil {
		panic(err)
	}
	fmt.Printf("kfgen %s: %d clusters, %d cases\n", id, len(names), total)
}
