#!/bin/bash
# maintenance: confirm a seeded change in a scratch worktree of /repo's HEAD:
#   usage: seedcheck.sh <dir with patch.diff + demo_test.go> <demo dir relative to repo root> <test regexp>
# checks: patch applies; build ok; existing suite passes with it; demo fails with it and passes without it.
set -u
src="$1"; ddir="$2"; trun="$3"
export GOFLAGS=-mod=mod GOPROXY=off GOTOOLCHAIN=local PATH=/root/go/pkg/mod/golang.org/toolchain@v0.0.1-go1.25.4.linux-amd64/bin:$PATH
wt=/tmp/sc/$(basename "$src").$$
mkdir -p /tmp/sc
git -C /repo worktree add -q --detach "$wt" HEAD || exit 2
cleanup() { git -C /repo worktree remove --force "$wt" >/dev/null 2>&1; }
trap cleanup EXIT
cd "$wt" || exit 2
if ! git apply "$src/patch.diff" 2>/tmp/sc/apply.err; then echo "RESULT apply=FAIL $(head -2 /tmp/sc/apply.err | tr '\n' ' ')"; exit 1; fi
if ! go build ./... 2>/tmp/sc/build.err; then echo "RESULT build=FAIL"; head -5 /tmp/sc/build.err; exit 1; fi
suite=PASS
go test -vet=off -count=1 ./... > /tmp/sc/suite.log 2>&1 || { grep -q "TestAntiQuadratic_LargeInputPerformance" /tmp/sc/suite.log && go test -vet=off -count=1 ./... > /tmp/sc/suite.log 2>&1 || suite=FAIL; }
cp "$src/demo_test.go" "$wt/$ddir/zz_seed_demo_test.go"
with=PASS; go test -vet=off -count=1 -run "$trun" "./$ddir" > /tmp/sc/with.log 2>&1 || with=FAIL
git apply -R "$src/patch.diff"
without=PASS; go test -vet=off -count=1 -run "$trun" "./$ddir" > /tmp/sc/without.log 2>&1 || without=FAIL
echo "RESULT apply=OK build=OK suite_with_change=$suite demo_with_change=$with demo_without_change=$without"
[ "$suite" = PASS ] && [ "$with" = FAIL ] && [ "$without" = PASS ]
