#!/bin/bash
# maintenance (not registered): regenerate known-finding sets for the given properties from a triage run on the
# CURRENT tree (quick tier, and the thorough tier when TIERS="quick thorough"), then re-run the check.
cd /verif && . ./env.sh
"$VF_GO" build -o "$VF_WORK/vf" ./cmd/vf || exit 2
rm -rf "$VF_WORK/cache"
for id in "$@"; do
  dirs=""
  for t in ${TIERS:-quick}; do
    d="$VF_WORK/triage/$id-$t"
    "$VF_WORK/vf" triage "$id" --tier "$t" --triage "$d" > "$VF_WORK/triage-$id-$t.log" 2>&1
    dirs="$dirs $d"
  done
  "$VF_WORK/vf" kfgen "$id" $dirs
done
