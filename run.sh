#!/bin/bash
# usage: run.sh <property-id> <quick|thorough>
# Rebuilds the vf binary from /verif and /repo's current working tree (the harness module replaces
# github.com/coregx/coregex by /repo), then runs the check. Exit 0 = property held on everything explored,
# 1 = VIOLATION, 2 = harness/build problem.
set -u
cd "$(dirname "$0")" || exit 2
. ./env.sh
id="$1"; tier="${2:-${VERIF_TIER:-quick}}"
(
  flock 9
  if ! "$VF_GO" build -o "$VF_WORK/vf.new" ./cmd/vf 2> "$VF_WORK/build.err"; then
    cat "$VF_WORK/build.err" >&2
    echo "run.sh: build failed" >&2
    exit 2
  fi
  if ! cmp -s "$VF_WORK/vf.new" "$VF_WORK/vf" 2>/dev/null; then
    mv "$VF_WORK/vf.new" "$VF_WORK/vf"
    rm -rf "$VF_WORK/cache"
  else
    rm -f "$VF_WORK/vf.new"
  fi
) 9> "$VF_WORK/build.lock" || exit 2
exec "$VF_WORK/vf" check "$id" --tier "$tier"
